package sgen

import "testing"

func TestPadExact(t *testing.T) {
	tb := &Table{Name: "stops.txt", Header: []string{"stop_id", "stop_name"}, Rows: [][]string{{"a", "x,y"}, {"b", ""}}}
	for _, n := range []int{512, 4095, 4096, 4097, 32768} {
		for _, p := range []FilePres{{PadTo: n}, {PadTo: n, CRLF: true, BOM: true, QuoteAll: true}, {PadTo: n, ColOrder: []int{1, 0}, NoTrailingNL: true}} {
			if got := len(RenderCSV(tb, p)); got != n {
				t.Fatalf("PadTo %d with %+v gives %d bytes", n, p, got)
			}
		}
	}
}
