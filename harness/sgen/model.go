// Package sgen holds the harness's typed model of a GTFS static feed, its rendering to CSV
// tables and zip archives under arbitrary presentations, the reference semantics (Expect) and the
// normal form of the library's result (Normalize).
package sgen

import (
	"archive/zip"
	"bytes"
	"fmt"
	"strconv"
	"strings"
)

// TimeVal is a GTFS time: Sec is the intended value, Text its spelling ("" = blank cell).
type TimeVal struct {
	Sec  int
	Text string
}

// FloatVal is a decimal number: V is the value the text denotes, Text its spelling ("" = blank).
type FloatVal struct {
	V    float64
	Text string
}

type Date struct{ Y, M, D int }

func (d Date) Text() string { return fmt.Sprintf("%04d%02d%02d", d.Y, d.M, d.D) }

type Agency struct{ ID, Name, URL, TZ, Lang, Phone, FareURL, Email string }

// Enum-valued optional fields use -1 for a blank cell.
type Route struct {
	ID, AgencyID, Color, TextColor, Short, Long, Desc string
	Type                                              int
	URL                                               string
	SortOrder                                         string // decimal text or ""
	CPickup, CDropOff                                 int
}

type Stop struct {
	ID, Code, Name, Desc, ZoneID string
	Lon, Lat                     FloatVal
	URL                          string
	LocType                      int
	Parent                       string
	TZ                           string
	Wheelchair                   int
	PlatformCode                 string
}

type Transfer struct {
	From, To string
	Type     int
	MinTime  string // decimal text or ""
}

type CalendarRow struct {
	ServiceID  string
	Days       [7]int
	Start, End Date
}

type CalDateRow struct {
	ServiceID string
	Date      Date
	ExType    string
}

type ShapeRow struct {
	ShapeID  string
	Lat, Lon FloatVal
	Seq      int
	Dist     FloatVal
}

type Trip struct {
	RouteID, ServiceID, ID, Headsign, ShortName string
	Dir                                         int
	BlockID                                     string
	Wheelchair, Bikes                           int
	ShapeID                                     string
}

type Frequency struct {
	TripID     string
	Start, End TimeVal
	Headway    int
	Exact      int
}

type StopTime struct {
	TripID, StopID                     string
	Arr, Dep                           TimeVal
	Seq                                int
	Headsign                           string
	Pickup, DropOff, CPickup, CDropOff int
	Dist                               FloatVal
	Timepoint                          int
}

type Feed struct {
	Agencies      []Agency
	Routes        []Route
	Stops         []Stop
	Transfers     []Transfer
	Calendar      []CalendarRow
	CalendarDates []CalDateRow
	Shapes        []ShapeRow
	Trips         []Trip
	Frequencies   []Frequency
	StopTimes     []StopTime
}

// ---------------------------------------------------------------------------------------------
// Tables

type Table struct {
	Name   string
	Header []string
	Rows   [][]string
}

type Tables []Table

func (ts Tables) Get(name string) *Table {
	for i := range ts {
		if ts[i].Name == name {
			return &ts[i]
		}
	}
	return nil
}

func (ts Tables) Clone() Tables {
	out := make(Tables, len(ts))
	for i, t := range ts {
		c := Table{Name: t.Name, Header: append([]string(nil), t.Header...)}
		for _, r := range t.Rows {
			c.Rows = append(c.Rows, append([]string(nil), r...))
		}
		out[i] = c
	}
	return out
}

// Col returns the index of a column, -1 when absent.
func (t *Table) Col(name string) int {
	for i, h := range t.Header {
		if h == name {
			return i
		}
	}
	return -1
}

// DropColumn removes a column.
func (t *Table) DropColumn(name string) {
	c := t.Col(name)
	if c < 0 {
		return
	}
	t.Header = append(append([]string(nil), t.Header[:c]...), t.Header[c+1:]...)
	for i, r := range t.Rows {
		t.Rows[i] = append(append([]string(nil), r[:c]...), r[c+1:]...)
	}
}

func enum(v int) string {
	if v < 0 {
		return ""
	}
	return strconv.Itoa(v)
}

// FileOrder is the canonical member order.
var FileOrder = []string{"agency.txt", "routes.txt", "stops.txt", "transfers.txt", "calendar.txt", "calendar_dates.txt", "shapes.txt", "trips.txt", "frequencies.txt", "stop_times.txt"}

// OptionalFiles may be left out of the archive.
var OptionalFiles = map[string]bool{"transfers.txt": true, "calendar.txt": true, "calendar_dates.txt": true, "shapes.txt": true, "frequencies.txt": true}

// Tables renders the typed feed as ten tables with every supported column present.
func (f *Feed) Tables() Tables {
	var ts Tables
	t := Table{Name: "agency.txt", Header: []string{"agency_id", "agency_name", "agency_url", "agency_timezone", "agency_lang", "agency_phone", "agency_fare_url", "agency_email"}}
	for _, a := range f.Agencies {
		t.Rows = append(t.Rows, []string{a.ID, a.Name, a.URL, a.TZ, a.Lang, a.Phone, a.FareURL, a.Email})
	}
	ts = append(ts, t)
	t = Table{Name: "routes.txt", Header: []string{"route_id", "agency_id", "route_short_name", "route_long_name", "route_desc", "route_type", "route_url", "route_color", "route_text_color", "route_sort_order", "continuous_pickup", "continuous_drop_off"}}
	for _, r := range f.Routes {
		t.Rows = append(t.Rows, []string{r.ID, r.AgencyID, r.Short, r.Long, r.Desc, enum(r.Type), r.URL, r.Color, r.TextColor, r.SortOrder, enum(r.CPickup), enum(r.CDropOff)})
	}
	ts = append(ts, t)
	t = Table{Name: "stops.txt", Header: []string{"stop_id", "stop_code", "stop_name", "stop_desc", "stop_lat", "stop_lon", "zone_id", "stop_url", "location_type", "parent_station", "stop_timezone", "wheelchair_boarding", "platform_code"}}
	for _, s := range f.Stops {
		t.Rows = append(t.Rows, []string{s.ID, s.Code, s.Name, s.Desc, s.Lat.Text, s.Lon.Text, s.ZoneID, s.URL, enum(s.LocType), s.Parent, s.TZ, enum(s.Wheelchair), s.PlatformCode})
	}
	ts = append(ts, t)
	t = Table{Name: "transfers.txt", Header: []string{"from_stop_id", "to_stop_id", "transfer_type", "min_transfer_time"}}
	for _, x := range f.Transfers {
		t.Rows = append(t.Rows, []string{x.From, x.To, enum(x.Type), x.MinTime})
	}
	ts = append(ts, t)
	t = Table{Name: "calendar.txt", Header: []string{"service_id", "monday", "tuesday", "wednesday", "thursday", "friday", "saturday", "sunday", "start_date", "end_date"}}
	for _, c := range f.Calendar {
		row := []string{c.ServiceID}
		for _, d := range c.Days {
			row = append(row, strconv.Itoa(d))
		}
		t.Rows = append(t.Rows, append(row, c.Start.Text(), c.End.Text()))
	}
	ts = append(ts, t)
	t = Table{Name: "calendar_dates.txt", Header: []string{"service_id", "date", "exception_type"}}
	for _, c := range f.CalendarDates {
		t.Rows = append(t.Rows, []string{c.ServiceID, c.Date.Text(), c.ExType})
	}
	ts = append(ts, t)
	t = Table{Name: "shapes.txt", Header: []string{"shape_id", "shape_pt_lat", "shape_pt_lon", "shape_pt_sequence", "shape_dist_traveled"}}
	for _, s := range f.Shapes {
		t.Rows = append(t.Rows, []string{s.ShapeID, s.Lat.Text, s.Lon.Text, strconv.Itoa(s.Seq), s.Dist.Text})
	}
	ts = append(ts, t)
	t = Table{Name: "trips.txt", Header: []string{"route_id", "service_id", "trip_id", "trip_headsign", "trip_short_name", "direction_id", "block_id", "shape_id", "wheelchair_accessible", "bikes_allowed"}}
	for _, x := range f.Trips {
		t.Rows = append(t.Rows, []string{x.RouteID, x.ServiceID, x.ID, x.Headsign, x.ShortName, enum(x.Dir), x.BlockID, x.ShapeID, enum(x.Wheelchair), enum(x.Bikes)})
	}
	ts = append(ts, t)
	t = Table{Name: "frequencies.txt", Header: []string{"trip_id", "start_time", "end_time", "headway_secs", "exact_times"}}
	for _, x := range f.Frequencies {
		t.Rows = append(t.Rows, []string{x.TripID, x.Start.Text, x.End.Text, strconv.Itoa(x.Headway), enum(x.Exact)})
	}
	ts = append(ts, t)
	t = Table{Name: "stop_times.txt", Header: []string{"trip_id", "arrival_time", "departure_time", "stop_id", "stop_sequence", "stop_headsign", "pickup_type", "drop_off_type", "continuous_pickup", "continuous_drop_off", "shape_dist_traveled", "timepoint"}}
	for _, x := range f.StopTimes {
		t.Rows = append(t.Rows, []string{x.TripID, x.Arr.Text, x.Dep.Text, x.StopID, strconv.Itoa(x.Seq), x.Headsign, enum(x.Pickup), enum(x.DropOff), enum(x.CPickup), enum(x.CDropOff), x.Dist.Text, enum(x.Timepoint)})
	}
	ts = append(ts, t)
	return ts
}

// ---------------------------------------------------------------------------------------------
// Presentation

type ExtraCol struct {
	Name  string
	Cells []string // one per data row (cycled when shorter)
}

type FilePres struct {
	Extra           []ExtraCol
	ColOrder        []int // permutation of (original columns ++ extra columns); nil = identity
	BOM             bool
	CRLF            bool
	NoTrailingNL    bool
	QuoteAll        bool
	QuoteMask       uint64 // cell k (row-major, header included) is quoted when bit k%64 is set
	Store           bool   // zip method Store instead of Deflate
	OmitIfEmpty     bool   // optional file with no rows is left out of the archive
	ZeroBytes       bool   // optional file with no rows is present as a zero-byte member (a parser may reject such an archive)
	PadTo           int    // when > 0 the member is padded, through the name of one more unknown column, to exactly this many bytes (if it is smaller)
	BlankLinesAfter []int  // emit an empty line after these row indices (-1 = after the header); only for files with >= 2 columns
}

type ExtraMember struct {
	Name    string
	Content string
	Pos     int
}

type Presentation struct {
	Files        map[string]FilePres
	MemberOrder  []int // permutation of the present members; nil = identity
	ExtraMembers []ExtraMember
	Comment      string `json:",omitempty"` // zip archive comment
}

func needsQuotes(s string) bool {
	return strings.ContainsAny(s, ",\"\r\n")
}

func quote(s string) string {
	return `"` + strings.ReplaceAll(s, `"`, `""`) + `"`
}

// RenderCSV writes one table under a presentation.
func RenderCSV(t *Table, p FilePres) []byte {
	if p.PadTo > 0 {
		q := p
		q.PadTo = 0
		q.Extra = append(append([]ExtraCol(nil), p.Extra...), ExtraCol{Name: "pad_"})
		if len(q.ColOrder) > 0 {
			q.ColOrder = append(append([]int(nil), p.ColOrder...), len(p.ColOrder)) // the padding column goes last
		}
		base := renderCSV(t, q)
		if len(base) <= p.PadTo {
			q.Extra[len(q.Extra)-1].Name = "pad_" + strings.Repeat("x", p.PadTo-len(base))
			return renderCSV(t, q)
		}
	}
	return renderCSV(t, p)
}

func renderCSV(t *Table, p FilePres) []byte {
	header := append([]string(nil), t.Header...)
	rows := make([][]string, len(t.Rows))
	for i, r := range t.Rows {
		rows[i] = append([]string(nil), r...)
	}
	for _, e := range p.Extra {
		header = append(header, e.Name)
		for i := range rows {
			c := ""
			if len(e.Cells) > 0 {
				c = e.Cells[i%len(e.Cells)]
			}
			rows[i] = append(rows[i], c)
		}
	}
	if len(p.ColOrder) == len(header) {
		perm := func(r []string) []string {
			out := make([]string, len(r))
			for i, src := range p.ColOrder {
				out[i] = r[src]
			}
			return out
		}
		header = perm(header)
		for i := range rows {
			rows[i] = perm(rows[i])
		}
	}
	nl := "\n"
	if p.CRLF {
		nl = "\r\n"
	}
	var b bytes.Buffer
	if p.BOM {
		b.WriteString("\xEF\xBB\xBF")
	}
	k := 0
	blank := map[int]bool{}
	if len(header) >= 2 {
		for _, i := range p.BlankLinesAfter {
			blank[i] = true
		}
	}
	writeRow := func(r []string, last bool) {
		for i, c := range r {
			if i > 0 {
				b.WriteByte(',')
			}
			q := needsQuotes(c) || p.QuoteAll || p.QuoteMask&(1<<(uint(k)%64)) != 0
			if len(r) == 1 && c == "" {
				q = true // a lone empty cell would otherwise read as a blank line
			}
			k++
			if q {
				b.WriteString(quote(c))
			} else {
				b.WriteString(c)
			}
		}
		if !last || !p.NoTrailingNL {
			b.WriteString(nl)
		}
	}
	writeRow(header, len(rows) == 0)
	if blank[-1] && len(rows) > 0 {
		b.WriteString(nl)
	}
	for i, r := range rows {
		writeRow(r, i == len(rows)-1)
		if blank[i] && i != len(rows)-1 {
			b.WriteString(nl)
		}
	}
	return b.Bytes()
}

// Render writes the archive.
func Render(ts Tables, p Presentation) []byte {
	type member struct {
		name    string
		content []byte
		store   bool
	}
	var members []member
	for i := range ts {
		t := &ts[i]
		fp := p.Files[t.Name]
		if fp.OmitIfEmpty && OptionalFiles[t.Name] && len(t.Rows) == 0 {
			continue
		}
		if fp.ZeroBytes && OptionalFiles[t.Name] && len(t.Rows) == 0 {
			members = append(members, member{t.Name, nil, fp.Store})
			continue
		}
		members = append(members, member{t.Name, RenderCSV(t, fp), fp.Store})
	}
	if len(p.MemberOrder) == len(members) {
		out := make([]member, len(members))
		for i, src := range p.MemberOrder {
			out[i] = members[src]
		}
		members = out
	}
	for _, e := range p.ExtraMembers {
		pos := e.Pos
		if pos < 0 || pos > len(members) {
			pos = len(members)
		}
		members = append(members[:pos], append([]member{{e.Name, []byte(e.Content), false}}, members[pos:]...)...)
	}
	var b bytes.Buffer
	w := zip.NewWriter(&b)
	for _, m := range members {
		method := zip.Deflate
		if m.store {
			method = zip.Store
		}
		fw, err := w.CreateHeader(&zip.FileHeader{Name: m.name, Method: method})
		if err != nil {
			panic(err)
		}
		fw.Write(m.content)
	}
	if p.Comment != "" {
		w.SetComment(p.Comment)
	}
	if err := w.Close(); err != nil {
		panic(err)
	}
	return b.Bytes()
}

// Canonical is the plain presentation: all files, identity order, LF, trailing newline, minimal quoting.
func Canonical() Presentation { return Presentation{Files: map[string]FilePres{}} }

// HasZeroByteMember reports whether the archive rendered from ts under p contains a zero-byte member.
func HasZeroByteMember(ts Tables, p Presentation) bool {
	for i := range ts {
		fp := p.Files[ts[i].Name]
		if fp.ZeroBytes && !fp.OmitIfEmpty && OptionalFiles[ts[i].Name] && len(ts[i].Rows) == 0 {
			return true
		}
	}
	return false
}
