package sgen

import (
	"encoding/json"
	"fmt"
	"math"
	"reflect"
	"sort"
	"strconv"
	"strings"
	"time"
	_ "time/tzdata"
	"unsafe"

	"github.com/jamespfennell/gtfs"
)

// ---------------------------------------------------------------------------------------------
// Normal form of a static result: cross references are indices into the top-level collections.

type NTime struct {
	Unix  int64
	Zone  string
	Civil string
	// Gap marks an expected date whose local midnight does not exist (a zone that springs forward at 00:00): "the start of
	// that day" is then only defined up to the hour around the jump, see ReconcileGaps.
	Gap bool `json:",omitempty"`
}

func nt(t time.Time) NTime {
	return NTime{Unix: t.Unix(), Zone: t.Location().String(), Civil: t.Format("2006-01-02T15:04:05")}
}

type NAgency struct{ Id, Name, Url, Timezone, Language, Phone, FareUrl, Email string }

type NRoute struct {
	Id                                               string
	Agency                                           int
	Color, TextColor, ShortName, LongName, Desc, Url string
	Type                                             int
	SortOrder                                        *int32
	ContinuousPickup, ContinuousDropOff              int
}

type NStop struct {
	Id, Code, Name, Desc, ZoneId string
	Lon, Lat                     *uint64 // float64 bits
	Url                          string
	Type                         int
	Parent                       int // -1 = none
	Timezone                     string
	Wheelchair                   int
	PlatformCode                 string
}

type NTransfer struct {
	From, To        int
	Type            int
	MinTransferTime *int32
}

type NService struct {
	Id             string
	Days           [7]bool
	Start, End     NTime
	Added, Removed []NTime
}

type NStopTime struct {
	Stop                               int
	ArrivalNs, DepartureNs             int64
	Seq                                int
	Headsign                           string
	Pickup, DropOff, CPickup, CDropOff int
	Dist                               *uint64
	ExactTimes                         bool
}

type NFrequency struct {
	StartNs, EndNs, HeadwayNs int64
	ExactTimes                int
}

type NTrip struct {
	Route                   int
	Service                 string // id of the referenced service
	ServiceIdx              int    // index into Services as returned (-1 when the pointer is not into the slice)
	ID, Headsign, ShortName string
	Direction               string
	BlockID                 string
	Wheelchair, Bikes       int
	StopTimes               []NStopTime
	Shape                   int // -1 = none
	Frequencies             []NFrequency
}

type NPoint struct {
	Lat, Lon uint64
	Dist     *uint64
}

type NShape struct {
	ID     string
	Points []NPoint
}

type NStatic struct {
	Agencies  []NAgency
	Routes    []NRoute
	Stops     []NStop
	Transfers []NTransfer
	Services  []NService
	Trips     []NTrip
	Shapes    []NShape
	// Defects lists violations of referential closure found while normalising (C03).
	Defects []string `json:",omitempty"`
}

func indexIn[T any](p *T, s []T) int {
	if p == nil || len(s) == 0 {
		return -1
	}
	base := uintptr(unsafe.Pointer(&s[0]))
	addr := uintptr(unsafe.Pointer(p))
	size := unsafe.Sizeof(s[0])
	if addr < base || addr >= base+size*uintptr(len(s)) || (addr-base)%size != 0 {
		return -1
	}
	return int((addr - base) / size)
}

func fbits(p *float64) *uint64 {
	if p == nil {
		return nil
	}
	b := math.Float64bits(*p)
	return &b
}

func dirName(d gtfs.DirectionID) string {
	switch d {
	case gtfs.DirectionID_True:
		return "true"
	case gtfs.DirectionID_False:
		return "false"
	case gtfs.DirectionID_Unspecified:
		return "unspecified"
	}
	return fmt.Sprintf("invalid(%d)", d)
}

func cp32(p *int32) *int32 {
	if p == nil {
		return nil
	}
	v := *p
	return &v
}

// Normalize converts the library's result. Pointers are resolved by address against the
// returned slices; a pointer that does not land on an element is recorded in Defects.
func Normalize(s *gtfs.Static) NStatic {
	var n NStatic
	defect := func(format string, args ...any) {
		if len(n.Defects) < 20 {
			n.Defects = append(n.Defects, fmt.Sprintf(format, args...))
		}
	}
	for _, a := range s.Agencies {
		n.Agencies = append(n.Agencies, NAgency{a.Id, a.Name, a.Url, a.Timezone, a.Language, a.Phone, a.FareUrl, a.Email})
	}
	for i := range s.Routes {
		r := &s.Routes[i]
		ai := indexIn(r.Agency, s.Agencies)
		if r.Agency == nil {
			defect("Routes[%d] (%q): Agency is nil", i, r.Id)
		} else if ai < 0 {
			defect("Routes[%d] (%q): Agency does not point into Agencies (points at a copy with id %q)", i, r.Id, r.Agency.Id)
		}
		n.Routes = append(n.Routes, NRoute{Id: r.Id, Agency: ai, Color: r.Color, TextColor: r.TextColor, ShortName: r.ShortName, LongName: r.LongName,
			Desc: r.Description, Url: r.Url, Type: int(r.Type), SortOrder: cp32(r.SortOrder), ContinuousPickup: int(r.ContinuousPickup), ContinuousDropOff: int(r.ContinuousDropOff)})
	}
	for i := range s.Stops {
		st := &s.Stops[i]
		pi := -1
		if st.Parent != nil {
			pi = indexIn(st.Parent, s.Stops)
			if pi < 0 {
				defect("Stops[%d] (%q): Parent does not point into Stops (points at a copy with id %q)", i, st.Id, st.Parent.Id)
			}
		}
		n.Stops = append(n.Stops, NStop{Id: st.Id, Code: st.Code, Name: st.Name, Desc: st.Description, ZoneId: st.ZoneId, Lon: fbits(st.Longitude), Lat: fbits(st.Latitude),
			Url: st.Url, Type: int(st.Type), Parent: pi, Timezone: st.Timezone, Wheelchair: int(st.WheelchairBoarding), PlatformCode: st.PlatformCode})
	}
	for i := range s.Transfers {
		x := &s.Transfers[i]
		fi, ti := indexIn(x.From, s.Stops), indexIn(x.To, s.Stops)
		if x.From == nil || x.To == nil {
			defect("Transfers[%d]: From or To is nil", i)
		} else if fi < 0 || ti < 0 {
			defect("Transfers[%d]: From/To do not point into Stops", i)
		}
		n.Transfers = append(n.Transfers, NTransfer{From: fi, To: ti, Type: int(x.Type), MinTransferTime: cp32(x.MinTransferTime)})
	}
	for _, sv := range s.Services {
		ns := NService{Id: sv.Id, Days: [7]bool{sv.Monday, sv.Tuesday, sv.Wednesday, sv.Thursday, sv.Friday, sv.Saturday, sv.Sunday}, Start: nt(sv.StartDate), End: nt(sv.EndDate)}
		for _, d := range sv.AddedDates {
			ns.Added = append(ns.Added, nt(d))
		}
		for _, d := range sv.RemovedDates {
			ns.Removed = append(ns.Removed, nt(d))
		}
		n.Services = append(n.Services, ns)
	}
	for i := range s.Shapes {
		sh := &s.Shapes[i]
		ns := NShape{ID: sh.ID}
		for _, p := range sh.Points {
			ns.Points = append(ns.Points, NPoint{Lat: math.Float64bits(p.Latitude), Lon: math.Float64bits(p.Longitude), Dist: fbits(p.Distance)})
		}
		n.Shapes = append(n.Shapes, ns)
	}
	for i := range s.Trips {
		t := &s.Trips[i]
		nt := NTrip{ID: t.ID, Headsign: t.Headsign, ShortName: t.ShortName, Direction: dirName(t.DirectionId), BlockID: t.BlockID,
			Wheelchair: int(t.WheelchairAccessible), Bikes: int(t.BikesAllowed), Shape: -1, ServiceIdx: -1}
		nt.Route = indexIn(t.Route, s.Routes)
		if t.Route == nil {
			defect("Trips[%d] (%q): Route is nil", i, t.ID)
		} else if nt.Route < 0 {
			defect("Trips[%d] (%q): Route does not point into Routes (copy with id %q)", i, t.ID, t.Route.Id)
		}
		if t.Service == nil {
			defect("Trips[%d] (%q): Service is nil", i, t.ID)
		} else {
			nt.ServiceIdx = indexIn(t.Service, s.Services)
			nt.Service = t.Service.Id
			if nt.ServiceIdx < 0 {
				defect("Trips[%d] (%q): Service does not point into Services (copy with id %q)", i, t.ID, t.Service.Id)
			}
		}
		if t.Shape != nil {
			nt.Shape = indexIn(t.Shape, s.Shapes)
			if nt.Shape < 0 {
				defect("Trips[%d] (%q): Shape does not point into Shapes (copy with id %q)", i, t.ID, t.Shape.ID)
			}
		}
		for j := range t.StopTimes {
			st := &t.StopTimes[j]
			si := indexIn(st.Stop, s.Stops)
			if st.Stop == nil {
				defect("Trips[%d].StopTimes[%d]: Stop is nil", i, j)
			} else if si < 0 {
				defect("Trips[%d].StopTimes[%d]: Stop does not point into Stops (copy with id %q)", i, j, st.Stop.Id)
			}
			nt.StopTimes = append(nt.StopTimes, NStopTime{Stop: si, ArrivalNs: int64(st.ArrivalTime), DepartureNs: int64(st.DepartureTime), Seq: st.StopSequence,
				Headsign: st.Headsign, Pickup: int(st.PickupType), DropOff: int(st.DropOffType), CPickup: int(st.ContinuousPickup), CDropOff: int(st.ContinuousDropOff),
				Dist: fbits(st.ShapeDistanceTraveled), ExactTimes: st.ExactTimes})
		}
		for _, f := range t.Frequencies {
			nt.Frequencies = append(nt.Frequencies, NFrequency{int64(f.StartTime), int64(f.EndTime), int64(f.Headway), int(f.ExactTimes)})
		}
		n.Trips = append(n.Trips, nt)
	}
	return n
}

// SortedServices returns a copy in which Services are ordered by id (their order is fixed by no
// property except determinism, C06) and ServiceIdx is cleared.
func (n NStatic) SortedServices() NStatic {
	c := n
	c.Services = append([]NService(nil), n.Services...)
	sort.SliceStable(c.Services, func(i, j int) bool { return c.Services[i].Id < c.Services[j].Id })
	c.Trips = append([]NTrip(nil), n.Trips...)
	for i := range c.Trips {
		c.Trips[i].ServiceIdx = 0
	}
	return c
}

func js(v any) string {
	b, _ := json.Marshal(v)
	return string(b)
}

// JS renders v as JSON.
func JS(v any) string { return js(v) }

// Diff reports the first difference between two normal forms ("" when equal).
func Diff(got, want NStatic) string {
	if reflect.DeepEqual(got, want) || js(got) == js(want) {
		return ""
	}
	cmpList := func(name string, g, w any) string {
		gv, wv := reflect.ValueOf(g), reflect.ValueOf(w)
		if gv.Len() != wv.Len() {
			return fmt.Sprintf("%s: got %d entries, want %d\n got  %s\n want %s", name, gv.Len(), wv.Len(), trunc(js(g)), trunc(js(w)))
		}
		for i := 0; i < gv.Len(); i++ {
			a, b := js(gv.Index(i).Interface()), js(wv.Index(i).Interface())
			if a != b {
				return fmt.Sprintf("%s[%d]:\n got  %s\n want %s", name, i, trunc(a), trunc(b))
			}
		}
		return ""
	}
	for _, d := range []string{
		cmpList("Agencies", got.Agencies, want.Agencies), cmpList("Routes", got.Routes, want.Routes), cmpList("Stops", got.Stops, want.Stops),
		cmpList("Transfers", got.Transfers, want.Transfers), cmpList("Services", got.Services, want.Services), cmpList("Shapes", got.Shapes, want.Shapes),
		cmpList("Trips", got.Trips, want.Trips), cmpList("Defects", got.Defects, want.Defects),
	} {
		if d != "" {
			return d
		}
	}
	return "normal forms differ"
}

func trunc(s string) string {
	if len(s) > 1500 {
		return s[:1500] + "…"
	}
	return s
}

// ---------------------------------------------------------------------------------------------
// Reference semantics

// Options mirrors gtfs.ParseStaticOptions.
type Options struct{ InheritWheelchairBoarding bool }

// FeedLocation is the zone dates are expected in: the first agency's, UTC when it does not load.
func FeedLocation(f *Feed) *time.Location {
	if len(f.Agencies) == 0 {
		return time.UTC
	}
	loc, err := time.LoadLocation(f.Agencies[0].TZ)
	if err != nil {
		return time.UTC
	}
	return loc
}

func expDate(d Date, loc *time.Location) NTime {
	t := time.Date(d.Y, time.Month(d.M), d.D, 0, 0, 0, 0, loc)
	n := nt(t)
	if t.Hour() != 0 || t.Day() != d.D {
		n.Gap = true
	}
	return n
}

// ReconcileGaps returns got with every date that corresponds to a Gap date of want replaced by the expected value, provided it
// is in the same zone and within one hour of it. On such days Go normalises the missing midnight to the instant an hour before
// or after the jump; the statement ("the start of that day") does not choose between them, so both are accepted - but the row
// must still be there.
func ReconcileGaps(got, want NStatic) NStatic {
	out := got
	out.Services = append([]NService(nil), got.Services...)
	fix := func(g *NTime, w NTime) {
		d := g.Unix - w.Unix
		if w.Gap && g.Zone == w.Zone && d >= -3600 && d <= 3600 {
			*g = w
		}
	}
	for i := range out.Services {
		if i >= len(want.Services) || out.Services[i].Id != want.Services[i].Id {
			continue
		}
		sv, w := out.Services[i], want.Services[i]
		fix(&sv.Start, w.Start)
		fix(&sv.End, w.End)
		sv.Added = append([]NTime(nil), sv.Added...)
		sv.Removed = append([]NTime(nil), sv.Removed...)
		for j := range sv.Added {
			if j < len(w.Added) {
				fix(&sv.Added[j], w.Added[j])
			}
		}
		for j := range sv.Removed {
			if j < len(w.Removed) {
				fix(&sv.Removed[j], w.Removed[j])
			}
		}
		out.Services[i] = sv
	}
	return out
}

// Value is the number the text denotes (surrounding spaces ignored). The stored V is informational:
// the oracle always derives the value from the text that is rendered into the file.
func (v FloatVal) Value() float64 {
	f, err := strconv.ParseFloat(strings.TrimSpace(v.Text), 64)
	if err != nil {
		panic("sgen: float text does not parse: " + v.Text)
	}
	return f
}

func optFloat(v FloatVal) *uint64 {
	if v.Text == "" {
		return nil
	}
	b := math.Float64bits(v.Value())
	return &b
}

func optInt32(s string) *int32 {
	if s == "" {
		return nil
	}
	v, err := strconv.ParseInt(s, 10, 32)
	if err != nil {
		return nil
	}
	x := int32(v)
	return &x
}

func or(v, dflt int) int {
	if v < 0 {
		return dflt
	}
	return v
}

const (
	StopTypePlatform = 5
	RouteTypeUnknown = 10000
)

// Expect computes what the statement says ParseStatic returns for a well-formed feed, with the
// GTFS defaults for blank optional cells (property C10's list).
func Expect(f *Feed, o Options) NStatic {
	var n NStatic
	loc := FeedLocation(f)
	agencyIdx := map[string]int{}
	for i, a := range f.Agencies {
		n.Agencies = append(n.Agencies, NAgency{a.ID, a.Name, a.URL, a.TZ, a.Lang, a.Phone, a.FareURL, a.Email})
		if _, ok := agencyIdx[a.ID]; !ok {
			agencyIdx[a.ID] = i
		}
	}
	routeIdx := map[string]int{}
	for i, r := range f.Routes {
		ai := 0
		if r.AgencyID != "" {
			ai = agencyIdx[r.AgencyID]
		}
		color, textColor := r.Color, r.TextColor
		if color == "" {
			color = "FFFFFF"
		}
		if textColor == "" {
			textColor = "000000"
		}
		n.Routes = append(n.Routes, NRoute{Id: r.ID, Agency: ai, Color: color, TextColor: textColor, ShortName: r.Short, LongName: r.Long, Desc: r.Desc, Url: r.URL,
			Type: r.Type, SortOrder: optInt32(r.SortOrder), ContinuousPickup: or(r.CPickup, 1), ContinuousDropOff: or(r.CDropOff, 1)})
		routeIdx[r.ID] = i
	}
	stopIdx := map[string]int{}
	for i, s := range f.Stops {
		stopIdx[s.ID] = i
	}
	for _, s := range f.Stops {
		typ := or(s.LocType, 0)
		if typ == 0 && s.Parent != "" {
			typ = StopTypePlatform
		}
		pi := -1
		if s.Parent != "" {
			pi = stopIdx[s.Parent]
		}
		n.Stops = append(n.Stops, NStop{Id: s.ID, Code: s.Code, Name: s.Name, Desc: s.Desc, ZoneId: s.ZoneID, Lon: optFloat(s.Lon), Lat: optFloat(s.Lat), Url: s.URL,
			Type: typ, Parent: pi, Timezone: s.TZ, Wheelchair: or(s.Wheelchair, 0), PlatformCode: s.PlatformCode})
	}
	if o.InheritWheelchairBoarding {
		own := make([]int, len(n.Stops))
		for i := range n.Stops {
			own[i] = n.Stops[i].Wheelchair
		}
		for i := range n.Stops {
			if p := n.Stops[i].Parent; p >= 0 && own[i] == 0 && n.Stops[p].Type == 1 {
				n.Stops[i].Wheelchair = own[p]
			}
		}
	}
	for _, x := range f.Transfers {
		n.Transfers = append(n.Transfers, NTransfer{From: stopIdx[x.From], To: stopIdx[x.To], Type: or(x.Type, 0), MinTransferTime: optInt32(x.MinTime)})
	}
	// services
	svcIdx := map[string]int{}
	for _, c := range f.Calendar {
		ns := NService{Id: c.ServiceID, Start: expDate(c.Start, loc), End: expDate(c.End, loc)}
		for i, d := range c.Days {
			ns.Days[i] = d == 1
		}
		if i, ok := svcIdx[c.ServiceID]; ok {
			n.Services[i] = ns
		} else {
			svcIdx[c.ServiceID] = len(n.Services)
			n.Services = append(n.Services, ns)
		}
	}
	for _, c := range f.CalendarDates {
		if c.ExType != "1" && c.ExType != "2" {
			continue
		}
		d := expDate(c.Date, loc)
		i, ok := svcIdx[c.ServiceID]
		if !ok {
			svcIdx[c.ServiceID] = len(n.Services)
			n.Services = append(n.Services, NService{Id: c.ServiceID, Start: d, End: d})
			i = len(n.Services) - 1
		}
		sv := &n.Services[i]
		if d.Unix < sv.Start.Unix {
			sv.Start = d
		}
		if d.Unix > sv.End.Unix {
			sv.End = d
		}
		if c.ExType == "1" {
			sv.Added = append(sv.Added, d)
		} else {
			sv.Removed = append(sv.Removed, d)
		}
	}
	// shapes: grouped by id, points by sequence, shapes by id
	shapeRows := map[string][]ShapeRow{}
	var shapeIDs []string
	for _, r := range f.Shapes {
		if _, ok := shapeRows[r.ShapeID]; !ok {
			shapeIDs = append(shapeIDs, r.ShapeID)
		}
		shapeRows[r.ShapeID] = append(shapeRows[r.ShapeID], r)
	}
	sort.Strings(shapeIDs)
	shapeIdx := map[string]int{}
	for i, id := range shapeIDs {
		rows := shapeRows[id]
		sort.SliceStable(rows, func(a, b int) bool { return rows[a].Seq < rows[b].Seq })
		ns := NShape{ID: id}
		for _, r := range rows {
			ns.Points = append(ns.Points, NPoint{Lat: math.Float64bits(r.Lat.Value()), Lon: math.Float64bits(r.Lon.Value()), Dist: optFloat(r.Dist)})
		}
		n.Shapes = append(n.Shapes, ns)
		shapeIdx[id] = i
	}
	tripIdx := map[string]int{}
	for i, x := range f.Trips {
		dir := "unspecified"
		switch x.Dir {
		case 0:
			dir = "false"
		case 1:
			dir = "true"
		}
		sh := -1
		if x.ShapeID != "" {
			sh = shapeIdx[x.ShapeID]
		}
		n.Trips = append(n.Trips, NTrip{Route: routeIdx[x.RouteID], Service: x.ServiceID, ServiceIdx: 0, ID: x.ID, Headsign: x.Headsign, ShortName: x.ShortName,
			Direction: dir, BlockID: x.BlockID, Wheelchair: or(x.Wheelchair, 0), Bikes: or(x.Bikes, 0), Shape: sh})
		tripIdx[x.ID] = i
	}
	for _, x := range f.Frequencies {
		t := &n.Trips[tripIdx[x.TripID]]
		t.Frequencies = append(t.Frequencies, NFrequency{int64(x.Start.Sec) * 1e9, int64(x.End.Sec) * 1e9, int64(x.Headway) * 1e9, or(x.Exact, 0)})
	}
	for _, x := range f.StopTimes {
		t := &n.Trips[tripIdx[x.TripID]]
		arr, dep := x.Arr, x.Dep
		if arr.Text == "" {
			arr = dep
		}
		if dep.Text == "" {
			dep = arr
		}
		t.StopTimes = append(t.StopTimes, NStopTime{Stop: stopIdx[x.StopID], ArrivalNs: int64(arr.Sec) * 1e9, DepartureNs: int64(dep.Sec) * 1e9, Seq: x.Seq, Headsign: x.Headsign,
			Pickup: or(x.Pickup, 0), DropOff: or(x.DropOff, 0), CPickup: or(x.CPickup, 1), CDropOff: or(x.CDropOff, 1), Dist: optFloat(x.Dist), ExactTimes: or(x.Timepoint, 1) == 1})
	}
	for i := range n.Trips {
		st := n.Trips[i].StopTimes
		sort.SliceStable(st, func(a, b int) bool { return st[a].Seq < st[b].Seq })
	}
	return n
}
