package sgen

import (
	"fmt"
	"strings"

	"pgregory.net/rapid"
)

// Reference columns (file, column, target file, target id column).
var RefCols = [][4]string{
	{"routes.txt", "agency_id", "agency.txt", "agency_id"},
	{"stops.txt", "parent_station", "stops.txt", "stop_id"},
	{"transfers.txt", "from_stop_id", "stops.txt", "stop_id"},
	{"transfers.txt", "to_stop_id", "stops.txt", "stop_id"},
	{"trips.txt", "route_id", "routes.txt", "route_id"},
	{"trips.txt", "service_id", "calendar.txt", "service_id"},
	{"trips.txt", "shape_id", "shapes.txt", "shape_id"},
	{"stop_times.txt", "trip_id", "trips.txt", "trip_id"},
	{"stop_times.txt", "stop_id", "stops.txt", "stop_id"},
	{"frequencies.txt", "trip_id", "trips.txt", "trip_id"},
	{"calendar_dates.txt", "service_id", "calendar.txt", "service_id"},
}

// IDCols names the own-id column of files that have one.
var IDCols = map[string]string{"agency.txt": "agency_id", "routes.txt": "route_id", "stops.txt": "stop_id", "calendar.txt": "service_id",
	"trips.txt": "trip_id", "shapes.txt": "shape_id"}

// HostileValues are cell contents that are wrong for numbers, times, dates and enums.
var HostileValues = []string{"abc", "-1", "1e400", "NaN", "Inf", "99999999999999999999", "25:61:61", ":::", "20221345", "\x00", "", " ", "0", "+5", "1.5", "0x10",
	"-9223372036854775808", "2147483648", "١٢٣", "12:00", "12", strings.Repeat("9", 400), strings.Repeat("x", 2000), "\"", ",", "\n"}

func pickTable(t *rapid.T, ts Tables, label string, needRows bool) *Table {
	var cand []int
	for i := range ts {
		if !needRows || len(ts[i].Rows) > 0 {
			cand = append(cand, i)
		}
	}
	if len(cand) == 0 {
		return nil
	}
	return &ts[cand[rapid.IntRange(0, len(cand)-1).Draw(t, label)]]
}

func insertRow(tb *Table, pos int, row []string) {
	tb.Rows = append(tb.Rows[:pos], append([][]string{row}, tb.Rows[pos:]...)...)
}

// Mutate applies k generated hostile edits to a copy of ts and returns labels naming them.
func Mutate(t *rapid.T, ts Tables, k int, allowStructural bool) (Tables, []string) {
	out := ts.Clone()
	var labels []string
	for n := 0; n < k; n++ {
		max := 11
		if allowStructural {
			max = 15
		}
		switch m := rapid.IntRange(0, max).Draw(t, "mutation"); m {
		case 0, 1: // reference -> unknown / blank
			rc := RefCols[rapid.IntRange(0, len(RefCols)-1).Draw(t, "refCol")]
			tb := out.Get(rc[0])
			if tb == nil || len(tb.Rows) == 0 || tb.Col(rc[1]) < 0 {
				continue
			}
			r := rapid.IntRange(0, len(tb.Rows)-1).Draw(t, "refRow")
			// an id nothing in THIS feed carries - "NOPE", or one of the ids generated feeds commonly use, which other feeds parsed
			// in the same process do carry
			v := rapid.SampledFrom([]string{"NOPE", "NOPE", "s1", "s7", "S3", "s_2", "t1", "T2", "r1", "a1", "sv1", "sh1", "ring5", "s0~3"}).Draw(t, "danglingID")
			if tgt := out.Get(rc[2]); tgt != nil && tgt.Col(rc[3]) >= 0 {
				for _, row := range tgt.Rows {
					if row[tgt.Col(rc[3])] == v {
						v = "NOPE" // present after all
					}
				}
			}
			if tgt := out.Get(rc[2]); tgt != nil && tgt.Col(rc[3]) >= 0 && len(tgt.Rows) > 0 && rapid.IntRange(0, 3).Draw(t, "paddedDangling") == 0 {
				// an existing id with white space around it: another string, so the reference dangles
				id := tgt.Rows[rapid.IntRange(0, len(tgt.Rows)-1).Draw(t, "paddedOf")][tgt.Col(rc[3])]
				if id != "" {
					v = rapid.SampledFrom([]string{id + " \u00a0", "\u00a0 " + id, id + "\t", strings.ToUpper(id) + " \u00a0"}).Draw(t, "paddedShape")
				}
			}
			if m == 1 {
				v = ""
			}
			tb.Rows[r][tb.Col(rc[1])] = v
			labels = append(labels, fmt.Sprintf("ref-%s:%s.%s", map[int]string{0: "unknown", 1: "blank"}[m], rc[0], rc[1]))
		case 2: // parent_station = own id
			tb := out.Get("stops.txt")
			if tb == nil || len(tb.Rows) == 0 || tb.Col("parent_station") < 0 || tb.Col("stop_id") < 0 {
				continue
			}
			r := rapid.IntRange(0, len(tb.Rows)-1).Draw(t, "selfRow")
			tb.Rows[r][tb.Col("parent_station")] = tb.Rows[r][tb.Col("stop_id")]
			labels = append(labels, "parent-self")
		case 3: // parent cycle of length 2..4
			tb := out.Get("stops.txt")
			if tb == nil || len(tb.Rows) < 2 || tb.Col("parent_station") < 0 || tb.Col("stop_id") < 0 {
				continue
			}
			l := rapid.IntRange(2, min(4, len(tb.Rows))).Draw(t, "cycleLen")
			perm := rapid.Permutation(seq(len(tb.Rows))).Draw(t, "cycleRows")[:l]
			for i, r := range perm {
				next := perm[(i+1)%l]
				tb.Rows[r][tb.Col("parent_station")] = tb.Rows[next][tb.Col("stop_id")]
			}
			labels = append(labels, fmt.Sprintf("parent-cycle-%d", l))
		case 4: // a parent made the child of its child
			tb := out.Get("stops.txt")
			if tb == nil || tb.Col("parent_station") < 0 || tb.Col("stop_id") < 0 {
				continue
			}
			var withParent []int
			for i, r := range tb.Rows {
				if r[tb.Col("parent_station")] != "" {
					withParent = append(withParent, i)
				}
			}
			if len(withParent) == 0 {
				continue
			}
			c := withParent[rapid.IntRange(0, len(withParent)-1).Draw(t, "childRow")]
			pid := tb.Rows[c][tb.Col("parent_station")]
			for i, r := range tb.Rows {
				if r[tb.Col("stop_id")] == pid {
					tb.Rows[i][tb.Col("parent_station")] = tb.Rows[c][tb.Col("stop_id")]
				}
			}
			labels = append(labels, "parent-of-own-child")
		case 5, 6: // duplicate id: copy a row, keep its id, point its references elsewhere
			files := []string{"agency.txt", "routes.txt", "stops.txt", "calendar.txt", "trips.txt"}
			tb := out.Get(files[rapid.IntRange(0, len(files)-1).Draw(t, "dupFile")])
			if tb == nil || len(tb.Rows) == 0 {
				continue
			}
			src := rapid.IntRange(0, len(tb.Rows)-1).Draw(t, "dupSrc")
			row := append([]string(nil), tb.Rows[src]...)
			for _, rc := range RefCols {
				if rc[0] != tb.Name || tb.Col(rc[1]) < 0 {
					continue
				}
				target := out.Get(rc[2])
				if target == nil || len(target.Rows) == 0 || target.Col(rc[3]) < 0 {
					continue
				}
				if rapid.Bool().Draw(t, "dupRetarget") {
					row[tb.Col(rc[1])] = target.Rows[rapid.IntRange(0, len(target.Rows)-1).Draw(t, "dupTarget")][target.Col(rc[3])]
				}
			}
			insertRow(tb, rapid.IntRange(0, len(tb.Rows)).Draw(t, "dupPos"), row)
			labels = append(labels, "duplicate-id:"+tb.Name)
		case 7: // delete a row (references to it dangle)
			tb := pickTable(t, out, "delFile", true)
			if tb == nil {
				continue
			}
			r := rapid.IntRange(0, len(tb.Rows)-1).Draw(t, "delRow")
			tb.Rows = append(tb.Rows[:r], tb.Rows[r+1:]...)
			labels = append(labels, "delete-row:"+tb.Name)
		case 8: // move a row
			tb := pickTable(t, out, "moveFile", true)
			if tb == nil || len(tb.Rows) < 2 {
				continue
			}
			r := rapid.IntRange(0, len(tb.Rows)-1).Draw(t, "moveFrom")
			row := tb.Rows[r]
			tb.Rows = append(tb.Rows[:r], tb.Rows[r+1:]...)
			insertRow(tb, rapid.IntRange(0, len(tb.Rows)).Draw(t, "moveTo"), row)
			labels = append(labels, "move-row:"+tb.Name)
		case 9: // blank any cell (required ones included)
			tb := pickTable(t, out, "blankFile", true)
			if tb == nil {
				continue
			}
			r := rapid.IntRange(0, len(tb.Rows)-1).Draw(t, "blankRow")
			c := rapid.IntRange(0, len(tb.Header)-1).Draw(t, "blankCol")
			tb.Rows[r][c] = ""
			labels = append(labels, "blank-cell:"+tb.Name+"."+tb.Header[c])
		case 10, 11: // hostile value in any cell
			tb := pickTable(t, out, "hostileFile", true)
			if tb == nil {
				continue
			}
			r := rapid.IntRange(0, len(tb.Rows)-1).Draw(t, "hostileRow")
			c := rapid.IntRange(0, len(tb.Header)-1).Draw(t, "hostileCol")
			tb.Rows[r][c] = rapid.SampledFrom(HostileValues).Draw(t, "hostileValue")
			labels = append(labels, "hostile-value:"+tb.Name+"."+tb.Header[c])
		case 12: // drop a column (required ones included)
			tb := pickTable(t, out, "dropColFile", false)
			if tb == nil || len(tb.Header) < 2 {
				continue
			}
			name := tb.Header[rapid.IntRange(0, len(tb.Header)-1).Draw(t, "dropCol")]
			tb.DropColumn(name)
			labels = append(labels, "drop-column:"+tb.Name+"."+name)
		case 13: // duplicate a column header (values differ)
			tb := pickTable(t, out, "dupColFile", false)
			if tb == nil {
				continue
			}
			c := rapid.IntRange(0, len(tb.Header)-1).Draw(t, "dupCol")
			tb.Header = append(tb.Header, tb.Header[c])
			for i := range tb.Rows {
				v := tb.Rows[i][c]
				if rapid.Bool().Draw(t, "dupColOther") {
					v = rapid.SampledFrom(HostileValues).Draw(t, "dupColValue")
				}
				tb.Rows[i] = append(tb.Rows[i], v)
			}
			labels = append(labels, "duplicate-column:"+tb.Name+"."+tb.Header[c])
		case 14: // drop an optional file
			var opt []int
			for i := range out {
				if OptionalFiles[out[i].Name] {
					opt = append(opt, i)
				}
			}
			if len(opt) == 0 {
				continue
			}
			i := opt[rapid.IntRange(0, len(opt)-1).Draw(t, "dropFile")]
			labels = append(labels, "drop-file:"+out[i].Name)
			out = append(out[:i], out[i+1:]...)
		case 15: // all rows of a file removed
			tb := pickTable(t, out, "emptyFile", true)
			if tb == nil {
				continue
			}
			tb.Rows = nil
			labels = append(labels, "empty-file:"+tb.Name)
		}
	}
	return out, labels
}

// Inflate replicates the rows of the id-bearing files with fresh ids (and their dependants)
// until the main collections reach roughly n rows, so that result slices are re-allocated
// repeatedly while being built.
func Inflate(ts Tables, n int) Tables {
	out := ts.Clone()
	for _, name := range []string{"stops.txt", "routes.txt", "trips.txt"} {
		tb := out.Get(name)
		if tb == nil || len(tb.Rows) == 0 {
			continue
		}
		idc := tb.Col(IDCols[name])
		if idc < 0 {
			continue
		}
		base := len(tb.Rows)
		for i := 0; len(tb.Rows) < n; i++ {
			row := append([]string(nil), tb.Rows[i%base]...)
			row[idc] = fmt.Sprintf("%s~%d", row[idc], i)
			tb.Rows = append(tb.Rows, row)
		}
	}
	if st := out.Get("stop_times.txt"); st != nil && len(st.Rows) > 0 {
		trips, stops := out.Get("trips.txt"), out.Get("stops.txt")
		ti, si, qi := st.Col("trip_id"), st.Col("stop_id"), st.Col("stop_sequence")
		if trips != nil && stops != nil && ti >= 0 && si >= 0 && qi >= 0 && len(trips.Rows) > 0 && len(stops.Rows) > 0 && trips.Col("trip_id") >= 0 && stops.Col("stop_id") >= 0 {
			base := len(st.Rows)
			for i := 0; len(st.Rows) < n; i++ {
				row := append([]string(nil), st.Rows[i%base]...)
				row[ti] = trips.Rows[(i*7)%len(trips.Rows)][trips.Col("trip_id")]
				row[si] = stops.Rows[(i*13)%len(stops.Rows)][stops.Col("stop_id")]
				row[qi] = fmt.Sprint(1000 + i)
				st.Rows = append(st.Rows, row)
			}
		}
	}
	return out
}

// LongGroup gives ONE group of each grouped file n more rows - the stop times of one trip, the points of one shape, the
// exception dates of one service - and lets a fresh group (a trip / shape / service that has no rows before) follow it, so
// that whatever a parser keeps per group is closed at a size beyond any block or chunk it may allocate in.
func LongGroup(ts Tables, n int) Tables {
	out := ts.Clone()
	if st, trips := out.Get("stop_times.txt"), out.Get("trips.txt"); st != nil && trips != nil && len(st.Rows) > 0 && len(trips.Rows) > 0 {
		ti, qi, tci := st.Col("trip_id"), st.Col("stop_sequence"), trips.Col("trip_id")
		if ti >= 0 && qi >= 0 && tci >= 0 {
			tmpl := st.Rows[len(st.Rows)-1]
			for i := 0; i < n; i++ {
				row := append([]string(nil), tmpl...)
				row[qi] = fmt.Sprint(100000 + i)
				st.Rows = append(st.Rows, row)
			}
			// a trip of its own after the long one
			for _, tr := range trips.Rows {
				if tr[tci] == tmpl[ti] {
					tail := append([]string(nil), tr...)
					tail[tci] = tr[tci] + "~tail"
					trips.Rows = append(trips.Rows, tail)
					for k := 0; k < 2; k++ {
						row := append([]string(nil), tmpl...)
						row[ti] = tail[tci]
						row[qi] = fmt.Sprint(k + 1)
						st.Rows = append(st.Rows, row)
					}
					break
				}
			}
		}
	}
	if sh := out.Get("shapes.txt"); sh != nil && len(sh.Rows) > 0 {
		ii, qi := sh.Col("shape_id"), sh.Col("shape_pt_sequence")
		if ii >= 0 && qi >= 0 {
			tmpl := sh.Rows[len(sh.Rows)-1]
			for i := 0; i < n; i++ {
				row := append([]string(nil), tmpl...)
				row[qi] = fmt.Sprint(100000 + i)
				sh.Rows = append(sh.Rows, row)
			}
			for k := 0; k < 2; k++ {
				row := append([]string(nil), tmpl...)
				row[ii] = tmpl[ii] + "~tail"
				row[qi] = fmt.Sprint(k + 1)
				sh.Rows = append(sh.Rows, row)
			}
		}
	}
	if cd := out.Get("calendar_dates.txt"); cd != nil && len(cd.Rows) > 0 {
		si, di := cd.Col("service_id"), cd.Col("date")
		if si >= 0 && di >= 0 {
			tmpl := cd.Rows[len(cd.Rows)-1]
			y, m, d := 2030, 1, 1
			for i := 0; i < n; i++ {
				row := append([]string(nil), tmpl...)
				row[di] = fmt.Sprintf("%04d%02d%02d", y, m, d)
				if d++; d > 28 {
					d = 1
					if m++; m > 12 {
						m = 1
						y++
					}
				}
				cd.Rows = append(cd.Rows, row)
			}
			row := append([]string(nil), tmpl...)
			row[si] = tmpl[si] + "~tail"
			cd.Rows = append(cd.Rows, row)
		}
	}
	return out
}
