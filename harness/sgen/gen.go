package sgen

import (
	"fmt"
	"strconv"
	"strings"
	"sync"
	"time"

	"pgregory.net/rapid"
)

// GenOpts bounds and shapes generated feeds.
type GenOpts struct {
	MaxAgencies, MaxRoutes, MaxStops, MaxTransfers, MaxServices int
	MaxShapes, MaxPoints, MaxTrips, MaxStopTimes, MaxFreq       int
	MinTrips, MinStopTimes, MinShapes, MinPoints, MinServices   int
	// ExplicitDefaults: every optional enum / default-bearing cell is written and both arrival and
	// departure are given (the precondition of C01). Otherwise such cells are blank now and then.
	ExplicitDefaults bool
	// PlainIDs restricts ids to [A-Za-z0-9_] (used where ids end up in messages only).
	PlainIDs bool
	// ServiceMix forces calendar-only, dates-only and combined services, ignored exception types,
	// duplicates and out-of-range dates (C11).
	ServiceMix bool
	// SortedRows keeps stop_times and shapes rows grouped by trip/shape in ascending sequence.
	SortedRows bool
	// GapDays lets dates fall on days whose local midnight does not exist in the agency zone (callers must compare through ReconcileGaps).
	GapDays bool
	// StopChains adds (one time in three) a three-level chain station <- platform <- boarding area, the station with a
	// wheelchair value, the levels below it with blank or own values: what reaches the third level is the platform's, never the station's.
	StopChains bool
}

func DefaultGenOpts() GenOpts {
	return GenOpts{MaxAgencies: 3, MaxRoutes: 4, MaxStops: 8, MaxTransfers: 3, MaxServices: 4, MaxShapes: 3, MaxPoints: 5, MaxTrips: 4, MaxStopTimes: 5, MaxFreq: 2, StopChains: true}
}

// LargeGenOpts is used by the thorough tier.
func LargeGenOpts() GenOpts {
	return GenOpts{MaxAgencies: 6, MaxRoutes: 12, MaxStops: 40, MaxTransfers: 10, MaxServices: 10, MaxShapes: 6, MaxPoints: 20, MaxTrips: 20, MaxStopTimes: 25, MaxFreq: 4, StopChains: true}
}

var idShapes = []string{"%s%d", "%s%d", "%s_%d", "%s %d", "%s%d ", " %s%d", "%s,%d", "%s\"%d", "%s\n%d", "é%s%d", "%s%d漢", "%.0s%d", "%.0s0%d", "%s#%d", "%s%dN", "#%s%d", ";%s%d", "//%s%d"}
var plainShapes = []string{"%s%d", "%s_%d", "%.0s%d", "%s%dN"}

type idPool struct {
	used map[string]bool
}

func (p *idPool) draw(t *rapid.T, label, prefix string, plain bool) string {
	if p.used == nil {
		p.used = map[string]bool{}
	}
	shapes := idShapes
	if plain {
		shapes = plainShapes
	}
	for try := 0; ; try++ {
		shape := rapid.SampledFrom(shapes).Draw(t, label+"Shape")
		pre := prefix
		if rapid.IntRange(0, 4).Draw(t, label+"Upper") == 0 {
			pre = strings.ToUpper(prefix)
		}
		n := rapid.IntRange(0, 9+try*10).Draw(t, label+"N")
		id := fmt.Sprintf(shape, pre, n)
		if !p.used[id] {
			p.used[id] = true
			return id
		}
		if try > 20 {
			id = fmt.Sprintf("%s-%d", prefix, len(p.used)+1000)
			p.used[id] = true
			return id
		}
	}
}

var texts = []string{"", "", "Main St", "a,b", "say \"hi\"", "line1\nline2", "Zürich HB", "東京", " padded ", "x", "http://example.com/?a=1&b=2", "0", "NULL", "'", "a;b\tc", "#2 Dock Gate", "# comment", "//x", ";"}

func genText(t *rapid.T, label string) string { return rapid.SampledFrom(texts).Draw(t, label) }

// AgencyZones are agency_timezone values: loadable, and unknown names (UTC fallback).
var AgencyZones = []string{"America/New_York", "Europe/London", "Australia/Lord_Howe", "Asia/Kathmandu", "America/Havana", "America/Sao_Paulo", "America/Santiago", "Africa/Cairo", "UTC", "Etc/GMT+5", "Asia/Tokyo", "d", "Mars/Olympus", "America/New York", "PST", "EDT", "BST", "GMT+2", "europe/london", "AMERICA/NEW_YORK", "asia/tokyo", "utc", "Utc"}

// GenTime draws a GTFS time with its spelling.
func GenTime(t *rapid.T, label string) TimeVal {
	h := rapid.OneOf(rapid.IntRange(0, 30), rapid.SampledFrom([]int{0, 9, 10, 23, 24, 25, 47, 99, 100, 123, 999})).Draw(t, label+"H")
	m := rapid.IntRange(0, 59).Draw(t, label+"M")
	s := rapid.IntRange(0, 59).Draw(t, label+"S")
	text := fmt.Sprintf("%02d:%02d:%02d", h, m, s)
	if h < 10 && rapid.Bool().Draw(t, label+"NoPad") {
		text = fmt.Sprintf("%d:%02d:%02d", h, m, s)
	}
	return TimeVal{Sec: h*3600 + m*60 + s, Text: text}
}

// GenFloat draws a decimal number; the value is what the text denotes.
func GenFloat(t *rapid.T, label string, maxAbs int) FloatVal {
	var text string
	switch rapid.IntRange(0, 9).Draw(t, label+"Kind") {
	case 0:
		text = rapid.SampledFrom([]string{"0", "0.0", "1", "-1", "90", "-180", "0.000001", "-73.98765432109876", "40.7527", "123456789.125", "00.5", "5."}).Draw(t, label+"Const")
	default:
		i := rapid.IntRange(-maxAbs, maxAbs).Draw(t, label+"Int")
		nd := rapid.IntRange(0, 8).Draw(t, label+"Digits")
		text = strconv.Itoa(i)
		if i == 0 && rapid.Bool().Draw(t, label+"Neg") {
			text = "-0"
		}
		if nd > 0 {
			frac := rapid.StringOfN(rapid.RuneFrom([]rune("0123456789")), nd, nd, -1).Draw(t, label+"Frac")
			text += "." + frac
		}
	}
	v, err := strconv.ParseFloat(text, 64)
	if err != nil {
		panic("sgen: bad float text " + text)
	}
	return FloatVal{V: v, Text: text}
}

func genOptFloat(t *rapid.T, label string, maxAbs int) FloatVal {
	if rapid.IntRange(0, 3).Draw(t, label+"Blank") == 0 {
		return FloatVal{}
	}
	return GenFloat(t, label, maxAbs)
}

// DSTDays are civil dates on which some agency zone of the pool changes its offset.
var DSTDays = [][3]int{{2024, 3, 10}, {2024, 11, 3}, {2023, 3, 12}, {2023, 11, 5}, {2024, 3, 31}, {2024, 10, 27}, {2024, 4, 7}, {2024, 10, 6},
	{2024, 3, 9}, {2024, 3, 11}, {2024, 11, 2}, {2024, 11, 4}, {2018, 11, 4}, {2019, 2, 17}, {2024, 3, 17}, {2022, 11, 6}}

// GenDate draws a civil date whose midnight exists exactly once in loc.
func GenDate(t *rapid.T, label string, loc *time.Location) (Date, bool) {
	y := rapid.OneOf(rapid.IntRange(1995, 2050), rapid.SampledFrom([]int{2022, 2023, 2024, 1970, 2099, 2022, 2023, 2024, 1, 1900, 1969, 9999})).Draw(t, label+"Y")
	m := rapid.IntRange(1, 12).Draw(t, label+"M")
	d := rapid.IntRange(1, 28).Draw(t, label+"D")
	if rapid.IntRange(0, 7).Draw(t, label+"End") == 0 {
		d = []int{31, 28, 31, 30, 31, 30, 31, 31, 30, 31, 30, 31}[m-1]
		if m == 2 && y%4 == 0 && (y%100 != 0 || y%400 == 0) {
			d = 29
		}
	}
	if rapid.IntRange(0, 5).Draw(t, label+"DSTDay") == 0 {
		ymd := rapid.SampledFrom(DSTDays).Draw(t, label+"DSTDate")
		y, m, d = ymd[0], ymd[1], ymd[2]
	}
	moved := false
	for i := 0; i < 6 && !MidnightOK(y, m, d, loc); i++ {
		moved = true
		d++
		if d > 28 {
			d = 1
			m = m%12 + 1
		}
	}
	return Date{y, m, d}, moved
}

// MidnightOK: local midnight of the date exists, is unique, and no offset change is within an hour of it
// (a 02:00 transition on that day is fine: those are exactly the interesting days).
func MidnightOK(y, m, d int, loc *time.Location) bool {
	t := time.Date(y, time.Month(m), d, 0, 0, 0, 0, loc)
	if t.Hour() != 0 || t.Minute() != 0 || t.Day() != d || int(t.Month()) != m || t.Year() != y {
		return false
	}
	_, o := t.Zone()
	for _, dt := range []time.Duration{-time.Hour, -time.Second, time.Second, time.Hour} {
		if _, o2 := t.Add(dt).Zone(); o2 != o {
			return false
		}
	}
	return true
}

func genEnum(t *rapid.T, label string, vals []int, explicit bool) int {
	if !explicit && rapid.IntRange(0, 2).Draw(t, label+"Blank") == 0 {
		return -1
	}
	return rapid.SampledFrom(vals).Draw(t, label)
}

var (
	transCache = map[string][]Date{}
	transMu    sync.Mutex
)

func addDays(d Date, k int) Date {
	u := time.Date(d.Y, time.Month(d.M), d.D, 12, 0, 0, 0, time.UTC).AddDate(0, 0, k)
	return Date{u.Year(), int(u.Month()), u.Day()}
}

// TransitionNights lists the civil dates D of 2022-2025 such that local midnight of D and of D+1 both exist exactly once in
// loc and are not 24 hours apart (the clock changes in between).
func TransitionNights(loc *time.Location) []Date {
	transMu.Lock()
	defer transMu.Unlock()
	if d, ok := transCache[loc.String()]; ok {
		return d
	}
	var out []Date
	for d := time.Date(2022, 1, 1, 12, 0, 0, 0, time.UTC); d.Year() < 2026; d = d.AddDate(0, 0, 1) {
		e := d.AddDate(0, 0, 1)
		if !MidnightOK(d.Year(), int(d.Month()), d.Day(), loc) || !MidnightOK(e.Year(), int(e.Month()), e.Day(), loc) {
			continue
		}
		t0 := time.Date(d.Year(), d.Month(), d.Day(), 0, 0, 0, 0, loc)
		t1 := time.Date(e.Year(), e.Month(), e.Day(), 0, 0, 0, 0, loc)
		if t1.Sub(t0) != 24*time.Hour {
			out = append(out, Date{d.Year(), int(d.Month()), d.Day()})
		}
	}
	transCache[loc.String()] = out
	return out
}

var gapCache = map[string][]Date{}

// GapDays lists the civil dates 2010-2025 on which loc has no local midnight.
func GapDays(loc *time.Location) []Date {
	if d, ok := gapCache[loc.String()]; ok {
		return d
	}
	var out []Date
	for d := time.Date(2010, 1, 1, 12, 0, 0, 0, time.UTC); d.Year() < 2026; d = d.AddDate(0, 0, 1) {
		t := time.Date(d.Year(), d.Month(), d.Day(), 0, 0, 0, 0, loc)
		if t.Hour() != 0 || t.Day() != d.Day() {
			out = append(out, Date{d.Year(), int(d.Month()), d.Day()})
		}
	}
	gapCache[loc.String()] = out
	return out
}

// GenInfo reports structural facts about a generated feed.
type GenInfo struct {
	GapDates         int
	MovedDates       int
	DSTEdges         int
	InterleavedTrips bool
	OutOfOrderTrip   bool
	MultiAgency      bool
	ReachedStopTimes int
}

// GenFeed draws a well-formed feed: unique non-empty ids, every reference resolvable, required
// values present and parseable, distinct sequences per trip and per shape, values free of CR,
// acyclic stop hierarchy, no same-stop transfers.
func GenFeed(t *rapid.T, o GenOpts) (*Feed, GenInfo) {
	f := &Feed{}
	var info GenInfo
	explicit := o.ExplicitDefaults
	var pool idPool
	// agencies
	nA := rapid.IntRange(1, o.MaxAgencies).Draw(t, "nAgencies")
	for i := 0; i < nA; i++ {
		name := genText(t, "agencyName")
		if name == "" {
			name = fmt.Sprintf("Agency %d", i)
		}
		url := genText(t, "agencyURL")
		if url == "" {
			url = "http://a"
		}
		f.Agencies = append(f.Agencies, Agency{ID: pool.draw(t, "agencyID", "a", o.PlainIDs), Name: name, URL: url,
			TZ: rapid.SampledFrom(AgencyZones).Draw(t, "agencyTZ"), Lang: genText(t, "lang"), Phone: genText(t, "phone"), FareURL: genText(t, "fareURL"), Email: genText(t, "email")})
	}
	info.MultiAgency = nA > 1
	loc := FeedLocation(f)
	gaps := []Date(nil)
	if o.GapDays {
		gaps = GapDays(loc)
	}
	trans := TransitionNights(loc)
	genDate := func(label string) (Date, bool) {
		if len(gaps) > 0 && rapid.IntRange(0, 2).Draw(t, label+"Gap") == 0 {
			info.GapDates++
			return gaps[rapid.IntRange(0, len(gaps)-1).Draw(t, label+"GapDay")], false
		}
		return GenDate(t, label, loc)
	}
	// routes
	nR := rapid.IntRange(1, o.MaxRoutes).Draw(t, "nRoutes")
	for i := 0; i < nR; i++ {
		r := Route{ID: pool.draw(t, "routeID", "r", o.PlainIDs), Short: genText(t, "routeShort"), Long: genText(t, "routeLong"), Desc: genText(t, "routeDesc"), URL: genText(t, "routeURL"),
			Type:    rapid.SampledFrom([]int{0, 1, 2, 3, 4, 5, 6, 7, 11, 12}).Draw(t, "routeType"),
			CPickup: genEnum(t, "routeCPickup", []int{0, 1, 2, 3}, explicit), CDropOff: genEnum(t, "routeCDropOff", []int{0, 1, 2, 3}, explicit)}
		r.AgencyID = f.Agencies[rapid.IntRange(0, nA-1).Draw(t, "routeAgency")].ID
		if nA == 1 && rapid.Bool().Draw(t, "routeAgencyBlank") {
			r.AgencyID = ""
		}
		if explicit || rapid.IntRange(0, 2).Draw(t, "colorBlank") != 0 {
			r.Color = rapid.SampledFrom([]string{"FFFFFF", "000000", "00FF7f", "ABCDEF", "123456"}).Draw(t, "color")
		}
		if explicit || rapid.IntRange(0, 2).Draw(t, "textColorBlank") != 0 {
			r.TextColor = rapid.SampledFrom([]string{"FFFFFF", "000000", "fedcba", "0A0B0C"}).Draw(t, "textColor")
		}
		if rapid.Bool().Draw(t, "sortOrder?") {
			r.SortOrder = strconv.Itoa(rapid.SampledFrom([]int{0, 1, 5, 10, 100, 2147483647}).Draw(t, "sortOrder"))
		}
		f.Routes = append(f.Routes, r)
	}
	// stops: hierarchy built top-down, then rows shuffled
	nS := rapid.IntRange(1, o.MaxStops).Draw(t, "nStops")
	var stations, platforms []int
	for i := 0; i < nS; i++ {
		s := Stop{ID: pool.draw(t, "stopID", "s", o.PlainIDs), Code: genText(t, "stopCode"), Name: genText(t, "stopName"), Desc: genText(t, "stopDesc"), ZoneID: genText(t, "zoneID"),
			URL: genText(t, "stopURL"), TZ: rapid.SampledFrom([]string{"", "America/New_York", "x"}).Draw(t, "stopTZ"), PlatformCode: rapid.SampledFrom([]string{"", "1", "A", "N"}).Draw(t, "platformCode"),
			Lat: genOptFloat(t, "stopLat", 90), Lon: genOptFloat(t, "stopLon", 180), Wheelchair: genEnum(t, "stopWheelchair", []int{0, 1, 2}, explicit)}
		if s.Lat.Text != "" && rapid.IntRange(0, 5).Draw(t, "latSpaces") == 0 {
			s.Lat.Text = " " + s.Lat.Text + " " // the suite pins that surrounding spaces are ignored for stop coordinates
		}
		kind := rapid.IntRange(0, 9).Draw(t, "stopKind")
		switch {
		case kind <= 2 || (len(stations) == 0 && kind >= 4): // station, or nothing to attach to yet
			if kind <= 2 {
				s.LocType = 1
				stations = append(stations, i)
			} else {
				s.LocType = genEnum(t, "locTypeStop", []int{0}, explicit)
				platforms = append(platforms, i)
			}
		case kind == 3: // stand-alone stop
			s.LocType = genEnum(t, "locTypeStop", []int{0}, explicit)
			platforms = append(platforms, i)
		case kind <= 6: // platform inside a station
			s.LocType = genEnum(t, "locTypeStop", []int{0}, explicit)
			s.Parent = f.Stops[stations[rapid.IntRange(0, len(stations)-1).Draw(t, "parentStation")]].ID
			platforms = append(platforms, i)
		case kind <= 8: // entrance or generic node inside a station
			s.LocType = rapid.SampledFrom([]int{2, 3}).Draw(t, "locTypeNode")
			s.Parent = f.Stops[stations[rapid.IntRange(0, len(stations)-1).Draw(t, "parentStation")]].ID
		default: // boarding area inside a platform
			if len(platforms) > 0 {
				s.LocType = 4
				s.Parent = f.Stops[platforms[rapid.IntRange(0, len(platforms)-1).Draw(t, "parentPlatform")]].ID
			} else {
				s.LocType = 1
				stations = append(stations, i)
			}
		}
		f.Stops = append(f.Stops, s)
	}
	if o.StopChains && rapid.IntRange(0, 2).Draw(t, "stopChain") == 0 {
		st := Stop{ID: pool.draw(t, "chainStation", "s", o.PlainIDs), Name: "Chain station", LocType: 1, Wheelchair: rapid.SampledFrom([]int{1, 2}).Draw(t, "chainStationWheelchair")}
		pl := Stop{ID: pool.draw(t, "chainPlatform", "s", o.PlainIDs), Name: "Chain platform", LocType: genEnum(t, "chainPlatformType", []int{0}, explicit), Parent: st.ID,
			Wheelchair: rapid.SampledFrom([]int{-1, -1, 0, 1, 2}).Draw(t, "chainPlatformWheelchair")}
		ba := Stop{ID: pool.draw(t, "chainBoarding", "s", o.PlainIDs), Name: "Chain boarding area", LocType: 4, Parent: pl.ID,
			Wheelchair: rapid.SampledFrom([]int{-1, -1, 0, 1}).Draw(t, "chainBoardingWheelchair")}
		if explicit {
			// explicit-defaults feeds spell "unspecified" as 0
			if pl.Wheelchair < 0 {
				pl.Wheelchair = 0
			}
			if ba.Wheelchair < 0 {
				ba.Wheelchair = 0
			}
		}
		f.Stops = append(f.Stops, st, pl, ba)
		nS += 3
	}
	if nS > 1 {
		perm := rapid.Permutation(seq(nS)).Draw(t, "stopOrder")
		shuffled := make([]Stop, nS)
		for i, p := range perm {
			shuffled[i] = f.Stops[p]
		}
		f.Stops = shuffled
	}
	// transfers
	if nS >= 2 {
		nX := rapid.IntRange(0, o.MaxTransfers).Draw(t, "nTransfers")
		for i := 0; i < nX; i++ {
			a := rapid.IntRange(0, nS-1).Draw(t, "xferFrom")
			b := rapid.IntRange(0, nS-2).Draw(t, "xferTo")
			if b >= a {
				b++
			}
			x := Transfer{From: f.Stops[a].ID, To: f.Stops[b].ID, Type: genEnum(t, "xferType", []int{0, 1, 2, 3}, explicit)}
			if rapid.Bool().Draw(t, "minTime?") {
				x.MinTime = strconv.Itoa(rapid.SampledFrom([]int{0, 60, 180, 2147483647}).Draw(t, "minTime"))
			}
			f.Transfers = append(f.Transfers, x)
		}
	}
	// services
	nSv := rapid.IntRange(max(1, o.MinServices), max(o.MaxServices, o.MinServices, 1)).Draw(t, "nServices")
	var serviceIDs []string
	for i := 0; i < nSv; i++ {
		id := pool.draw(t, "serviceID", "sv", o.PlainIDs)
		kind := rapid.IntRange(0, 2).Draw(t, "serviceKind") // 0 calendar only, 1 dates only, 2 both
		if o.ServiceMix && i < 3 {
			kind = i
		}
		var start, end Date
		var edgeEx *Date
		if kind == 0 || kind == 2 {
			c := CalendarRow{ServiceID: id}
			for d := range c.Days {
				c.Days[d] = rapid.IntRange(0, 1).Draw(t, "day")
			}
			var mv bool
			c.Start, mv = genDate("calStart")
			if mv {
				info.MovedDates++
			}
			c.End, mv = genDate("calEnd")
			if mv {
				info.MovedDates++
			}
			if c.End.Text() < c.Start.Text() {
				c.Start, c.End = c.End, c.Start
			}
			if kind == 2 && len(trans) > 0 && rapid.IntRange(0, 3).Draw(t, "dstEdge") == 0 {
				// the calendar range ends on the eve of (or starts on the morrow of) a night with a clock change in the agency
				// zone, and the only exception outside the range is the day across that night: 23 or 25 hours from the boundary
				d0 := trans[rapid.IntRange(0, len(trans)-1).Draw(t, "dstEdgeDay")]
				d1 := addDays(d0, 1)
				span := rapid.SampledFrom([]int{0, 1, 6, 40}).Draw(t, "dstEdgeSpan")
				if rapid.Bool().Draw(t, "dstEdgeAfter") {
					c.Start, c.End, edgeEx = addDays(d0, -span), d0, &d1
				} else {
					c.Start, c.End, edgeEx = d1, addDays(d1, span), &d0
				}
				for _, x := range []Date{c.Start, c.End} {
					if !MidnightOK(x.Y, x.M, x.D, loc) {
						info.MovedDates++ // the caller excludes such cases
					}
				}
				info.DSTEdges++
			}
			start, end = c.Start, c.End
			f.Calendar = append(f.Calendar, c)
		}
		if kind == 1 || kind == 2 {
			n := rapid.IntRange(1, 4).Draw(t, "nExceptions")
			if o.ServiceMix && rapid.IntRange(0, 19).Draw(t, "manyExceptions") == 0 {
				n = rapid.SampledFrom([]int{9, 17, 33, 70}).Draw(t, "manyExceptionsN")
			}
			valid := false
			for j := 0; j < n; j++ {
				dt, mv := genDate("exDate")
				if mv {
					info.MovedDates++
				}
				if edgeEx != nil && j == 0 {
					dt = *edgeEx
				} else if kind == 2 && end.Y > 0 && (edgeEx != nil || rapid.Bool().Draw(t, "exInside")) {
					dt = start // a date inside the range (its first day)
					if rapid.Bool().Draw(t, "exAtEnd") {
						dt = end
					}
				}
				ex := rapid.SampledFrom([]string{"1", "2", "1", "2", "0", "3", "9"}).Draw(t, "exType")
				if !o.ServiceMix && ex != "1" && ex != "2" {
					ex = "1"
				}
				if j == n-1 && !valid && kind == 1 {
					ex = rapid.SampledFrom([]string{"1", "2"}).Draw(t, "exTypeForced") // a dates-only service needs one valid row to exist
				}
				if edgeEx != nil && j == 0 && ex != "1" && ex != "2" {
					ex = "2"
				}
				if ex == "1" || ex == "2" {
					valid = true
				}
				f.CalendarDates = append(f.CalendarDates, CalDateRow{ServiceID: id, Date: dt, ExType: ex})
				if o.ServiceMix && rapid.IntRange(0, 5).Draw(t, "exDup") == 0 {
					f.CalendarDates = append(f.CalendarDates, CalDateRow{ServiceID: id, Date: dt, ExType: ex})
				}
			}
		}
		serviceIDs = append(serviceIDs, id)
	}
	if len(f.CalendarDates) > 1 && rapid.Bool().Draw(t, "shuffleCalDates") {
		perm := rapid.Permutation(seq(len(f.CalendarDates))).Draw(t, "calDatesOrder")
		sh := make([]CalDateRow, len(perm))
		for i, p := range perm {
			sh[i] = f.CalendarDates[p]
		}
		f.CalendarDates = sh
	}
	// shapes
	nSh := rapid.IntRange(o.MinShapes, max(o.MaxShapes, o.MinShapes)).Draw(t, "nShapes")
	var shapeIDs []string
	for i := 0; i < nSh; i++ {
		id := pool.draw(t, "shapeID", "sh", o.PlainIDs)
		shapeIDs = append(shapeIDs, id)
		np := rapid.IntRange(max(1, o.MinPoints), max(o.MaxPoints, o.MinPoints, 1)).Draw(t, "nPoints")
		seqs := genDistinctSeqs(t, "ptSeq", np, false)
		for _, sq := range seqs {
			f.Shapes = append(f.Shapes, ShapeRow{ShapeID: id, Lat: GenFloat(t, "ptLat", 90), Lon: GenFloat(t, "ptLon", 180), Seq: sq, Dist: genOptFloat(t, "ptDist", 100000)})
		}
	}
	if !o.SortedRows && len(f.Shapes) > 1 {
		perm := rapid.Permutation(seq(len(f.Shapes))).Draw(t, "shapeRowOrder")
		sh := make([]ShapeRow, len(perm))
		for i, p := range perm {
			sh[i] = f.Shapes[p]
		}
		f.Shapes = sh
	}
	// trips
	nT := rapid.IntRange(o.MinTrips, max(o.MaxTrips, o.MinTrips)).Draw(t, "nTrips")
	for i := 0; i < nT; i++ {
		x := Trip{ID: pool.draw(t, "tripID", "t", o.PlainIDs), RouteID: f.Routes[rapid.IntRange(0, nR-1).Draw(t, "tripRoute")].ID,
			ServiceID: serviceIDs[rapid.IntRange(0, len(serviceIDs)-1).Draw(t, "tripService")], Headsign: genText(t, "headsign"), ShortName: genText(t, "tripShort"),
			BlockID: genText(t, "block"), Dir: genEnum(t, "tripDir", []int{0, 1}, explicit), Wheelchair: genEnum(t, "tripWheelchair", []int{0, 1, 2}, explicit),
			Bikes: genEnum(t, "bikes", []int{0, 1, 2}, explicit)}
		if len(shapeIDs) > 0 && rapid.Bool().Draw(t, "tripShape?") {
			x.ShapeID = shapeIDs[rapid.IntRange(0, len(shapeIDs)-1).Draw(t, "tripShape")]
		}
		f.Trips = append(f.Trips, x)
	}
	// frequencies
	for i := range f.Trips {
		n := rapid.IntRange(0, o.MaxFreq).Draw(t, "nFreq")
		for j := 0; j < n; j++ {
			f.Frequencies = append(f.Frequencies, Frequency{TripID: f.Trips[i].ID, Start: GenTime(t, "freqStart"), End: GenTime(t, "freqEnd"),
				Headway: rapid.SampledFrom([]int{1, 60, 600, 3600, 2147483647}).Draw(t, "headway"), Exact: genEnum(t, "exact", []int{0, 1}, explicit)})
		}
	}
	// stop times
	var groups [][]StopTime
	for i := range f.Trips {
		n := rapid.IntRange(o.MinStopTimes, max(o.MaxStopTimes, o.MinStopTimes)).Draw(t, "nStopTimes")
		seqs := genDistinctSeqs(t, "stopSeq", n, true)
		var g []StopTime
		for _, sq := range seqs {
			st := StopTime{TripID: f.Trips[i].ID, StopID: f.Stops[rapid.IntRange(0, nS-1).Draw(t, "stStop")].ID, Seq: sq, Headsign: genText(t, "stHeadsign"),
				Pickup: genEnum(t, "pickup", []int{0, 1, 2, 3}, explicit), DropOff: genEnum(t, "dropOff", []int{0, 1, 2, 3}, explicit),
				CPickup: genEnum(t, "stCPickup", []int{0, 1, 2, 3}, explicit), CDropOff: genEnum(t, "stCDropOff", []int{0, 1, 2, 3}, explicit),
				Dist: genOptFloat(t, "stDist", 100000), Timepoint: genEnum(t, "timepoint", []int{0, 1}, explicit)}
			st.Arr, st.Dep = GenTime(t, "arr"), GenTime(t, "dep")
			if !explicit {
				switch rapid.IntRange(0, 5).Draw(t, "oneSided") {
				case 0:
					st.Arr = TimeVal{}
				case 1:
					st.Dep = TimeVal{}
				}
			}
			g = append(g, st)
		}
		groups = append(groups, g)
		info.ReachedStopTimes += len(g)
	}
	f.StopTimes = mergeGroups(t, groups, o.SortedRows, &info)
	return f, info
}

// mergeGroups lays the per-trip rows out in one file: block order, fully interleaved, or any order.
func mergeGroups(t *rapid.T, groups [][]StopTime, sorted bool, info *GenInfo) []StopTime {
	var all []StopTime
	for _, g := range groups {
		all = append(all, g...)
	}
	if sorted || len(all) < 2 {
		return all
	}
	switch rapid.IntRange(0, 3).Draw(t, "stopTimesLayout") {
	case 0: // blocks per trip, rows inside a block in generated (sequence) order
		return all
	case 1: // blocks per trip, rows inside each block shuffled
		var out []StopTime
		for _, g := range groups {
			if len(g) > 1 {
				perm := rapid.Permutation(seq(len(g))).Draw(t, "blockOrder")
				for _, p := range perm {
					out = append(out, g[p])
				}
				info.OutOfOrderTrip = true
			} else {
				out = append(out, g...)
			}
		}
		return out
	case 2: // round-robin interleaving
		var out []StopTime
		for i := 0; ; i++ {
			added := false
			for _, g := range groups {
				if i < len(g) {
					out = append(out, g[len(g)-1-i]) // descending inside each trip
					added = true
				}
			}
			if !added {
				break
			}
		}
		info.InterleavedTrips, info.OutOfOrderTrip = len(groups) > 1, true
		return out
	default:
		perm := rapid.Permutation(seq(len(all))).Draw(t, "stopTimesOrder")
		out := make([]StopTime, len(all))
		for i, p := range perm {
			out[i] = all[p]
		}
		info.InterleavedTrips, info.OutOfOrderTrip = len(groups) > 1, true
		return out
	}
}

// genDistinctSeqs draws n distinct sequence numbers in ascending order: non-contiguous,
// multi-digit (so that string order differs from numeric order), optionally negative or > 2^31.
func genDistinctSeqs(t *rapid.T, label string, n int, wide bool) []int {
	if n == 0 {
		return nil
	}
	start := rapid.SampledFrom([]int{0, 1, 5, 9, 95, 998}).Draw(t, label+"Start")
	if wide {
		start = rapid.SampledFrom([]int{0, 1, 5, 9, 95, 998, -3, 2147483640, 4294967290, 9007199254740990, -9007199254740995, 1 << 62}).Draw(t, label+"StartWide") // ... and around 2^53, where neighbouring integers are one float64
	}
	out := make([]int, n)
	cur := start
	for i := range out {
		out[i] = cur
		cur += rapid.SampledFrom([]int{1, 1, 2, 5, 10, 91}).Draw(t, label+"Step")
	}
	return out
}

func seq(n int) []int {
	s := make([]int, n)
	for i := range s {
		s[i] = i
	}
	return s
}

// ---------------------------------------------------------------------------------------------
// Presentations

var extraColNames = []string{"x_note", "feed_id", "X", "stop_id2", "route_id ", "unknown col", "é"}
var extraCells = []string{"", "junk", "1", "a,b", "\"", "x\ny", " "}

var nestedTables = [][2]string{
	{"shapes.txt", "shape_id,shape_pt_lat,shape_pt_lon,shape_pt_sequence\nnested_shape,1.5,2.5,1\nnested_shape,1.6,2.6,2\n"},
	{"calendar_dates.txt", "service_id,date,exception_type\nnested_service,20240102,1\n"},
	{"calendar.txt", "service_id,monday,tuesday,wednesday,thursday,friday,saturday,sunday,start_date,end_date\nnested_service,1,1,1,1,1,0,0,20240101,20241231\n"},
	{"transfers.txt", "from_stop_id,to_stop_id,transfer_type\nnested,nested,0\n"},
	{"frequencies.txt", "trip_id,start_time,end_time,headway_secs\nnested,00:00:00,01:00:00,60\n"},
}

// GenPresentation draws a byte-level presentation for the given tables.
func GenPresentation(t *rapid.T, ts Tables) (Presentation, int) {
	p := Presentation{Files: map[string]FilePres{}}
	dims := 0
	present := 0
	for i := range ts {
		tb := &ts[i]
		var fp FilePres
		nExtra := rapid.SampledFrom([]int{0, 0, 1, 2, 3}).Draw(t, "nExtraCols")
		used := map[string]bool{}
		for _, h := range tb.Header {
			used[h] = true
		}
		for j := 0; j < nExtra; j++ {
			name := rapid.SampledFrom(extraColNames).Draw(t, "extraColName")
			if len(tb.Header) > 0 && rapid.IntRange(0, 3).Draw(t, "caseVariantOfKnownColumn") == 0 {
				// an unknown column whose name differs from a known one only in letter case (column names are case-sensitive)
				h := tb.Header[rapid.IntRange(0, len(tb.Header)-1).Draw(t, "variantOf")]
				name = rapid.SampledFrom([]string{strings.ToUpper(h), strings.ToUpper(h[:1]) + h[1:]}).Draw(t, "variantShape")
			}
			if used[name] {
				name = fmt.Sprintf("%s_%d", name, j)
			}
			used[name] = true
			n := rapid.IntRange(1, 3).Draw(t, "extraCellsN")
			var cells []string
			for k := 0; k < n; k++ {
				cells = append(cells, rapid.SampledFrom(extraCells).Draw(t, "extraCell"))
			}
			fp.Extra = append(fp.Extra, ExtraCol{Name: name, Cells: cells})
		}
		if rapid.Bool().Draw(t, "permuteCols") {
			fp.ColOrder = rapid.Permutation(seq(len(tb.Header)+nExtra)).Draw(t, "colOrder")
		}
		fp.BOM = rapid.IntRange(0, 3).Draw(t, "bom") == 0
		fp.CRLF = rapid.IntRange(0, 2).Draw(t, "crlf") == 0
		fp.NoTrailingNL = rapid.IntRange(0, 2).Draw(t, "noTrailingNL") == 0
		switch rapid.IntRange(0, 3).Draw(t, "quoteMode") {
		case 0:
			fp.QuoteAll = true
		case 1:
			fp.QuoteMask = rapid.Uint64().Draw(t, "quoteMask")
		}
		fp.Store = rapid.Bool().Draw(t, "store")
		if rapid.IntRange(0, 39).Draw(t, "padTo?") == 0 {
			// member sizes at (and next to) the chunk boundaries of plausible read loops
			fp.PadTo = rapid.SampledFrom([]int{512, 4096, 8192, 32768, 65536, 131072}).Draw(t, "padTo") + rapid.IntRange(-1, 1).Draw(t, "padDelta")
		}
		fp.OmitIfEmpty = rapid.Bool().Draw(t, "omitIfEmpty")
		if OptionalFiles[tb.Name] && len(tb.Rows) == 0 && !fp.OmitIfEmpty {
			fp.ZeroBytes = rapid.IntRange(0, 2).Draw(t, "zeroBytes") == 0
		}
		p.Files[tb.Name] = fp
		if !(fp.OmitIfEmpty && OptionalFiles[tb.Name] && len(tb.Rows) == 0) {
			present++
		}
	}
	if rapid.Bool().Draw(t, "permuteMembers") {
		p.MemberOrder = rapid.Permutation(seq(present)).Draw(t, "memberOrder")
		dims++
	}
	nExtraM := rapid.SampledFrom([]int{0, 0, 1, 2}).Draw(t, "nExtraMembers")
	for j := 0; j < nExtraM; j++ {
		p.ExtraMembers = append(p.ExtraMembers, ExtraMember{
			Name:    rapid.SampledFrom([]string{"feed_info.txt", "fare_attributes.txt", "README", "pathways.txt", "agency.txt.bak", "sub/agency.txt", "Agency.txt"}).Draw(t, "extraMemberName"),
			Content: rapid.SampledFrom([]string{"", "a,b\n1,2\n", "\xff\xfe\x00", "agency_id\nzzz\n"}).Draw(t, "extraMemberContent"),
			Pos:     rapid.IntRange(0, present).Draw(t, "extraMemberPos")})
		if rapid.IntRange(0, 2).Draw(t, "nestedTable") == 0 {
			// a member in a sub-directory that is named like an optional table (which the archive may well lack at its root) and
			// holds rows that would be accepted there: it is an unknown extra file all the same
			nt := rapid.SampledFrom(nestedTables).Draw(t, "nestedTableName")
			p.ExtraMembers[len(p.ExtraMembers)-1].Name = rapid.SampledFrom([]string{"sub/", "archive/2023/", "__MACOSX/", "feed\\"}).Draw(t, "nestedDir") + nt[0]
			p.ExtraMembers[len(p.ExtraMembers)-1].Content = nt[1]
		}
	}
	if nExtraM > 0 {
		dims++
	}
	if rapid.IntRange(0, 7).Draw(t, "zipComment?") == 0 {
		p.Comment = rapid.SampledFrom([]string{"x", "generated 2024-01-01 by export tool v1.2", strings.Repeat("archive comment ", 20), strings.Repeat("c", 65535)}).Draw(t, "zipComment")
		dims++
	}
	var anyExtra, anyPerm, anyBOM, anyCRLF, anyNoNL, anyQuote, anyStore bool
	for _, fp := range p.Files {
		anyExtra = anyExtra || len(fp.Extra) > 0
		anyPerm = anyPerm || fp.ColOrder != nil
		anyBOM = anyBOM || fp.BOM
		anyCRLF = anyCRLF || fp.CRLF
		anyNoNL = anyNoNL || fp.NoTrailingNL
		anyQuote = anyQuote || fp.QuoteAll || fp.QuoteMask != 0
		anyStore = anyStore || fp.Store
	}
	for _, b := range []bool{anyExtra, anyPerm, anyBOM, anyCRLF, anyNoNL, anyQuote, anyStore} {
		if b {
			dims++
		}
	}
	return p, dims
}

// InflateFeed returns a copy of f grown to roughly n stops, n/4 trips and n stop_times rows by
// replicating existing rows under fresh ids (references stay resolvable, sequences stay distinct),
// so that size-dependent behaviour (slice growth, buffering, pre-allocation) is exercised with a
// feed whose expected result is still known exactly.
func InflateFeed(f *Feed, n int) *Feed {
	g := *f
	g.Stops = append([]Stop(nil), f.Stops...)
	g.Trips = append([]Trip(nil), f.Trips...)
	g.StopTimes = append([]StopTime(nil), f.StopTimes...)
	g.Shapes = append([]ShapeRow(nil), f.Shapes...)
	baseStops := len(f.Stops)
	for i := 0; len(g.Stops) < n && baseStops > 0; i++ {
		s := f.Stops[i%baseStops]
		s.ID = fmt.Sprintf("%s~%d", s.ID, i)
		g.Stops = append(g.Stops, s) // same parent as the original: still a forest
	}
	baseTrips := len(f.Trips)
	byTrip := map[string][]StopTime{}
	for _, st := range f.StopTimes {
		byTrip[st.TripID] = append(byTrip[st.TripID], st)
	}
	for i := 0; len(g.Trips) < n/4 && baseTrips > 0; i++ {
		t := f.Trips[i%baseTrips]
		orig := t.ID
		t.ID = fmt.Sprintf("%s~%d", t.ID, i)
		g.Trips = append(g.Trips, t)
		for k, st := range byTrip[orig] {
			st.TripID = t.ID
			st.StopID = g.Stops[(i*7+k*13)%len(g.Stops)].ID
			g.StopTimes = append(g.StopTimes, st)
		}
	}
	// pad one trip with many stop times (distinct sequences continuing after its largest one)
	if len(g.Trips) > 0 && len(g.Stops) > 0 {
		t := g.Trips[len(g.Trips)-1]
		maxSeq := 0
		tmpl := StopTime{TripID: t.ID, Arr: TimeVal{Sec: 3600, Text: "01:00:00"}, Dep: TimeVal{Sec: 3660, Text: "01:01:00"}, Pickup: 0, DropOff: 0, CPickup: 1, CDropOff: 1, Timepoint: 1}
		for _, st := range g.StopTimes {
			if st.TripID == t.ID {
				if st.Seq > maxSeq {
					maxSeq = st.Seq
				}
				tmpl = st
			}
		}
		for k := 0; len(g.StopTimes) < n; k++ {
			st := tmpl
			st.Seq = maxSeq + 1 + k
			st.StopID = g.Stops[(k*31)%len(g.Stops)].ID
			g.StopTimes = append(g.StopTimes, st)
		}
		// a trip of its own after the long one, so that the long group is closed by a fresh one
		tail := t
		tail.ID = t.ID + "~tail"
		g.Trips = append(g.Trips, tail)
		for k := 0; k < 2; k++ {
			st := tmpl
			st.TripID = tail.ID
			st.Seq = k + 1
			st.StopID = g.Stops[k%len(g.Stops)].ID
			g.StopTimes = append(g.StopTimes, st)
		}
	}
	if len(f.Shapes) > 0 {
		last := f.Shapes[len(f.Shapes)-1]
		maxSeq := 0
		for _, r := range f.Shapes {
			if r.ShapeID == last.ShapeID && r.Seq > maxSeq {
				maxSeq = r.Seq
			}
		}
		for k := 0; len(g.Shapes) < n/2; k++ {
			r := last
			r.Seq = maxSeq + 1 + k
			g.Shapes = append(g.Shapes, r)
		}
	}
	return &g
}
