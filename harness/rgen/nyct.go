package rgen

import (
	"fmt"
	"regexp"
	"strconv"
)

// NyctTripsOpts mirrors nycttrips.ExtensionOpts.
type NyctTripsOpts struct {
	FilterStale bool
	PreserveM   bool
}

var mSwapStations = map[string]bool{"M11": true, "M12": true, "M13": true, "M14": true, "M16": true, "M18": true}

// SwapMStop is the documented M-train fix for one stop id: N<->S at M11-M14, M16, M18; anything else unchanged.
func SwapMStop(id string) string {
	if len(id) != 4 || !mSwapStations[id[:3]] {
		return id
	}
	switch id[3] {
	case 'N':
		return id[:3] + "S"
	case 'S':
		return id[:3] + "N"
	}
	return id
}

var nyctTripID = regexp.MustCompile(`^([0-9]{6})_([[:alnum:]]{1,2})..([SN])([[:alnum:]]*)$`)

func cloneMsg(m *Msg) *Msg {
	out := &Msg{Timestamp: cp(m.Timestamp), Incrementality: cp(m.Incrementality)}
	for i := range m.Entities {
		e := m.Entities[i]
		c := Entity{ID: e.ID, IsDeleted: cp(e.IsDeleted), AL: e.AL}
		if e.TU != nil {
			tu := *e.TU
			tu.Trip = cloneDesc(tu.Trip)
			tu.Vehicle = cp(tu.Vehicle)
			tu.STUs = append([]STU(nil), tu.STUs...)
			c.TU = &tu
		}
		if e.VP != nil {
			vp := *e.VP
			if vp.Trip != nil {
				d := cloneDesc(*vp.Trip)
				vp.Trip = &d
			}
			vp.Vehicle = cp(vp.Vehicle)
			c.VP = &vp
		}
		out.Entities = append(out.Entities, c)
	}
	return out
}

func cloneDesc(d TripDesc) TripDesc {
	c := d
	c.TripID, c.RouteID, c.Direction, c.StartTime, c.StartDate, c.SchedRel = cp(d.TripID), cp(d.RouteID), cp(d.Direction), cp(d.StartTime), cp(d.StartDate), cp(d.SchedRel)
	if d.Nyct != nil {
		n := *d.Nyct
		c.Nyct = &n
	}
	return c
}

// ApplyMSwap returns a copy of m with the documented M-train swap applied to every trip update on route M.
func ApplyMSwap(m *Msg) *Msg {
	out := cloneMsg(m)
	for i := range out.Entities {
		tu := out.Entities[i].TU
		if tu == nil || tu.Trip.RouteID == nil || *tu.Trip.RouteID != "M" {
			continue
		}
		for j := range tu.STUs {
			if tu.STUs[j].StopID != nil {
				s := SwapMStop(*tu.STUs[j].StopID)
				tu.STUs[j].StopID = &s
			}
		}
	}
	return out
}

func applyNyctDesc(d *TripDesc) (assigned bool, vehicle *VehDesc) {
	if d == nil || d.Nyct == nil {
		return false, nil
	}
	n := d.Nyct
	dir := uint32(1)
	if n.Direction != nil && *n.Direction == 1 { // NORTH
		dir = 0
	}
	d.Direction = &dir
	if d.TripID != nil {
		if mt := nyctTripID.FindStringSubmatch(*d.TripID); mt != nil {
			hundredths, _ := strconv.Atoi(mt[1])
			sec := hundredths * 6 / 10 // hundredths of a minute, truncated to whole seconds
			st := fmt.Sprintf("%02d:%02d:%02d", sec/3600, sec/60%60, sec%60)
			d.StartTime = &st
		}
	}
	if n.IsAssigned != nil && *n.IsAssigned {
		id := ""
		if n.TrainID != nil {
			id = *n.TrainID
		}
		return true, &VehDesc{ID: &id}
	}
	return false, nil
}

// ApplyNyctTrips is the reference semantics of the NYCT trips extension at the level of the wire
// model: the result is a plain message that must parse - without any extension - to what the
// original parses to with the extension (tracks aside, see NyctTrack).
func ApplyNyctTrips(m *Msg, o NyctTripsOpts) (out *Msg, dropped int) {
	src := m
	if !o.PreserveM {
		src = ApplyMSwap(m)
	}
	work := cloneMsg(src)
	out = &Msg{Timestamp: work.Timestamp, Incrementality: work.Incrementality}
	ts := int64(0)
	if m.Timestamp != nil {
		ts = int64(*m.Timestamp)
	}
	for i := range work.Entities {
		e := work.Entities[i]
		if e.TU != nil {
			hasNyct := e.TU.Trip.Nyct != nil
			assigned, veh := applyNyctDesc(&e.TU.Trip)
			if veh != nil {
				e.TU.Vehicle = veh
			}
			if hasNyct && o.FilterStale && !assigned {
				first := int64(0)
				if len(e.TU.STUs) > 0 {
					s := e.TU.STUs[0]
					if s.Dep != nil && s.Dep.Time != nil {
						first = *s.Dep.Time
					}
					if first == 0 && s.Arr != nil && s.Arr.Time != nil {
						first = *s.Arr.Time
					}
				}
				if first == 0 || first < ts {
					dropped++
					continue
				}
			}
		}
		if e.VP != nil {
			_, veh := applyNyctDesc(e.VP.Trip)
			if veh != nil {
				e.VP.Vehicle = veh
			}
		}
		out.Entities = append(out.Entities, e)
	}
	return out, dropped
}

// NyctTrack is the expected track of a stop time update: the actual track when present, else the scheduled one.
func NyctTrack(s *STU) *string {
	if s.Nyct == nil {
		return nil
	}
	if s.Nyct.Actual != nil {
		return cp(s.Nyct.Actual)
	}
	return cp(s.Nyct.Scheduled)
}

// StripNyct removes every NYCT extension field (used to build plain twins of a message).
func StripNyct(m *Msg) *Msg {
	out := cloneMsg(m)
	for i := range out.Entities {
		if tu := out.Entities[i].TU; tu != nil {
			tu.Trip.Nyct = nil
			for j := range tu.STUs {
				tu.STUs[j].Nyct = nil
			}
		}
		if vp := out.Entities[i].VP; vp != nil && vp.Trip != nil {
			vp.Trip.Nyct = nil
		}
	}
	return out
}
