package rgen

import (
	"regexp"
	"strconv"
	"strings"
	"time"
)

// NyctAlertsOpts mirrors nyctalerts.ExtensionOpts. Policy: "" (none), "STATION", "COMPLEX".
type NyctAlertsOpts struct {
	Policy         string
	StationIDs     bool
	SkipTimetabled bool
	Metadata       bool
}

// The priority -> effect table and the timetabled-no-service set have no documentation other than
// the extension source; this copy was transcribed once from the pinned source and cross-checked
// against the enum names (see DESIGN.md, C17). Effects: 1 NO_SERVICE, 2 REDUCED_SERVICE,
// 3 SIGNIFICANT_DELAYS, 5 ADDITIONAL_SERVICE, 6 MODIFIED_SERVICE.
var PriorityEffect = map[int]int32{
	1: 1, 2: 2, 3: 2, 4: 2, 5: 6, 6: 6, 7: 6, 8: 6, 9: 5, 10: 6, 11: 6, 12: 6, 13: 6, 14: 6, 15: 2, 16: 6, 17: 6, 18: 6, 19: 3, 20: 3,
	21: 6, 22: 6, 23: 6, 24: 6, 25: 2, 26: 6, 27: 3, 28: 6, 29: 6, 30: 3, 31: 6, 32: 6, 33: 6, 34: 6, 35: 6, 36: 6, 37: 2, 38: 6, 39: 1, 40: 1,
}

var TimetabledNoService = map[int]bool{2: true, 3: true, 4: true}

var elevatorID = regexp.MustCompile(`^([[:alnum:]]{3})([SN]?)#EL(.*)$`)

// SelectorPriority decodes the Mercury priority of a selector ("...:<number>").
func SelectorPriority(s *Selector) (int, bool) {
	if s.SortOrder == nil {
		return 0, false
	}
	i := strings.LastIndex(*s.SortOrder, ":")
	if i < 0 {
		return 0, false
	}
	p, err := strconv.Atoi((*s.SortOrder)[i+1:])
	if err != nil {
		return 0, false
	}
	return p, true
}

// NyctAlertExp is the expectation for one output alert.
type NyctAlertExp struct {
	Alert      NAlert   // ID, Cause, Periods, Header, URL, Desc (without metadata), Informed/Fallback for non-elevator alerts
	Elevator   bool     // informed entities are exactly Stops (as a set), each naming only a stop
	Stops      []string // distinct expected stop ids
	EffectAny  []int32  // acceptable effects
	Meta       *MercuryAlert
	MemberIDs  []string
	FromEntity int
}

// ExpectNyctAlerts is the reference semantics of the NYCT alerts extension for the alert entities of m.
func ExpectNyctAlerts(m *Msg, o NyctAlertsOpts, loc *time.Location) (out []NyctAlertExp, trips []NTripID) {
	groups := map[string]int{}
	seenStop := map[[2]string]bool{}
	for ei := range m.Entities {
		e := &m.Entities[ei]
		if e.AL == nil {
			continue
		}
		if mt := elevatorID.FindStringSubmatch(e.ID); mt != nil {
			station, platform, elev := mt[1], mt[1]+mt[2], mt[3]
			key := platform + "#EL" + elev
			switch o.Policy {
			case "STATION":
				key = station + "#EL" + elev
			case "COMPLEX":
				key = "elevator:EL" + elev
			}
			stop := platform
			if o.StationIDs {
				stop = station
			}
			gi, ok := groups[key]
			if !ok {
				na, _ := ExpectAlert(key, e.AL, loc)
				na.Cause = 9 // MAINTENANCE
				na.Informed, na.Fallback, na.FallbackOptional = nil, nil, nil
				out = append(out, NyctAlertExp{Alert: na, Elevator: true, EffectAny: []int32{11}, FromEntity: ei})
				gi = len(out) - 1
				groups[key] = gi
			}
			g := &out[gi]
			g.MemberIDs = append(g.MemberIDs, e.ID)
			if !seenStop[[2]string{key, stop}] {
				seenStop[[2]string{key, stop}] = true
				g.Stops = append(g.Stops, stop)
			}
			continue
		}
		na, altrips := ExpectAlert(e.ID, e.AL, loc)
		switch {
		case strings.HasPrefix(e.ID, "lmm:planned_work"):
			na.Cause = 9 // MAINTENANCE
		case strings.HasPrefix(e.ID, "lmm:alert"):
			na.Cause = 3 // TECHNICAL_PROBLEM
		}
		exp := NyctAlertExp{Alert: na, FromEntity: ei, MemberIDs: []string{e.ID}}
		skip := false
		for si := range e.AL.Informed {
			p, ok := SelectorPriority(&e.AL.Informed[si])
			if !ok {
				continue
			}
			if eff, ok := PriorityEffect[p]; ok {
				exp.EffectAny = append(exp.EffectAny, eff)
			}
			if o.SkipTimetabled && TimetabledNoService[p] {
				skip = true
			}
		}
		if skip {
			continue
		}
		if len(exp.EffectAny) == 0 {
			exp.EffectAny = []int32{na.Effect}
		}
		if o.Metadata && e.AL.Mercury != nil {
			exp.Meta = e.AL.Mercury
		}
		trips = append(trips, altrips...)
		out = append(out, exp)
	}
	return out, trips
}
