// Package rgen holds the harness's typed model of a GTFS-realtime message, its rendering to the
// wire format, and the reference ("what the statement says") transcription used as oracle.
package rgen

import (
	_ "time/tzdata" // zone behaviour must not depend on the host

	gtfsrt "github.com/jamespfennell/gtfs/proto"
	"google.golang.org/protobuf/proto"
)

type NyctTrip struct {
	TrainID    *string
	IsAssigned *bool
	Direction  *int32 // 1 NORTH, 2 EAST, 3 SOUTH, 4 WEST
}

type TripDesc struct {
	TripID    *string
	RouteID   *string
	Direction *uint32
	StartTime *string
	StartDate *string
	SchedRel  *int32
	Nyct      *NyctTrip `json:",omitempty"`
}

type VehDesc struct {
	ID, Label, Plate *string
}

type Event struct {
	Time  *int64
	Delay *int32
	Unc   *int32
}

type NyctSTU struct {
	Scheduled, Actual *string
}

type STU struct {
	Seq      *uint32
	StopID   *string
	Arr, Dep *Event
	SchedRel *int32
	Nyct     *NyctSTU `json:",omitempty"`
}

type TripUpdate struct {
	Trip      TripDesc
	Vehicle   *VehDesc
	STUs      []STU
	Timestamp *uint64
	Delay     *int32
}

type Position struct {
	Lat, Lon float32
	Bearing  *float32
	Odo      *float64
	Speed    *float32
}

type VehiclePos struct {
	Trip       *TripDesc
	Vehicle    *VehDesc
	Pos        *Position
	CurSeq     *uint32
	StopID     *string
	Status     *int32
	Ts         *uint64
	Congestion *int32
	OccStatus  *int32
	OccPct     *uint32
}

type Selector struct {
	Agency    *string
	Route     *string
	RouteType *int32
	Direction *uint32
	Trip      *TripDesc
	Stop      *string
	SortOrder *string `json:",omitempty"` // Mercury entity selector extension
}

type Period struct{ Start, End *uint64 }

type Translation struct {
	Text string
	Lang *string
}

type MercuryAlert struct {
	CreatedAt, UpdatedAt uint64
	AlertType            string
	DisplayBeforeActive  *uint64
	HumanReadable        []Translation // nil = absent
	HasHumanReadable     bool
}

type Alert struct {
	Periods           []Period
	Informed          []Selector
	Cause, Effect     *int32
	URL, Header, Desc *[]Translation
	Mercury           *MercuryAlert `json:",omitempty"`
}

type Entity struct {
	ID        string
	IsDeleted *bool
	TU        *TripUpdate `json:",omitempty"`
	VP        *VehiclePos `json:",omitempty"`
	AL        *Alert      `json:",omitempty"`
}

type Msg struct {
	Timestamp      *uint64
	Incrementality *int32
	Entities       []Entity
}

func (d *TripDesc) Proto() *gtfsrt.TripDescriptor {
	if d == nil {
		return nil
	}
	p := &gtfsrt.TripDescriptor{TripId: cp(d.TripID), RouteId: cp(d.RouteID), DirectionId: cp(d.Direction),
		StartTime: cp(d.StartTime), StartDate: cp(d.StartDate)}
	if d.SchedRel != nil {
		v := gtfsrt.TripDescriptor_ScheduleRelationship(*d.SchedRel)
		p.ScheduleRelationship = &v
	}
	if d.Nyct != nil {
		n := &gtfsrt.NyctTripDescriptor{TrainId: cp(d.Nyct.TrainID), IsAssigned: cp(d.Nyct.IsAssigned)}
		if d.Nyct.Direction != nil {
			v := gtfsrt.NyctTripDescriptor_Direction(*d.Nyct.Direction)
			n.Direction = &v
		}
		proto.SetExtension(p, gtfsrt.E_NyctTripDescriptor, n)
	}
	return p
}

func (d *VehDesc) Proto() *gtfsrt.VehicleDescriptor {
	if d == nil {
		return nil
	}
	return &gtfsrt.VehicleDescriptor{Id: cp(d.ID), Label: cp(d.Label), LicensePlate: cp(d.Plate)}
}

func (e *Event) Proto() *gtfsrt.TripUpdate_StopTimeEvent {
	if e == nil {
		return nil
	}
	return &gtfsrt.TripUpdate_StopTimeEvent{Time: cp(e.Time), Delay: cp(e.Delay), Uncertainty: cp(e.Unc)}
}

func trans(ts *[]Translation) *gtfsrt.TranslatedString {
	if ts == nil {
		return nil
	}
	out := &gtfsrt.TranslatedString{}
	for _, t := range *ts {
		txt := t.Text
		out.Translation = append(out.Translation, &gtfsrt.TranslatedString_Translation{Text: &txt, Language: cp(t.Lang)})
	}
	return out
}

func (s *Selector) Proto() *gtfsrt.EntitySelector {
	p := &gtfsrt.EntitySelector{AgencyId: cp(s.Agency), RouteId: cp(s.Route), RouteType: cp(s.RouteType),
		DirectionId: cp(s.Direction), Trip: s.Trip.Proto(), StopId: cp(s.Stop)}
	if s.SortOrder != nil {
		proto.SetExtension(p, gtfsrt.E_MercuryEntitySelector, &gtfsrt.MercuryEntitySelector{SortOrder: cp(s.SortOrder)})
	}
	return p
}

func (e *Entity) Proto() *gtfsrt.FeedEntity {
	id := e.ID
	p := &gtfsrt.FeedEntity{Id: &id, IsDeleted: cp(e.IsDeleted)}
	if tu := e.TU; tu != nil {
		x := &gtfsrt.TripUpdate{Trip: tu.Trip.Proto(), Vehicle: tu.Vehicle.Proto(), Timestamp: cp(tu.Timestamp), Delay: cp(tu.Delay)}
		for i := range tu.STUs {
			s := &tu.STUs[i]
			ps := &gtfsrt.TripUpdate_StopTimeUpdate{StopSequence: cp(s.Seq), StopId: cp(s.StopID), Arrival: s.Arr.Proto(), Departure: s.Dep.Proto()}
			if s.SchedRel != nil {
				v := gtfsrt.TripUpdate_StopTimeUpdate_ScheduleRelationship(*s.SchedRel)
				ps.ScheduleRelationship = &v
			}
			if s.Nyct != nil {
				proto.SetExtension(ps, gtfsrt.E_NyctStopTimeUpdate, &gtfsrt.NyctStopTimeUpdate{ScheduledTrack: cp(s.Nyct.Scheduled), ActualTrack: cp(s.Nyct.Actual)})
			}
			x.StopTimeUpdate = append(x.StopTimeUpdate, ps)
		}
		p.TripUpdate = x
	}
	if vp := e.VP; vp != nil {
		x := &gtfsrt.VehiclePosition{Trip: vp.Trip.Proto(), Vehicle: vp.Vehicle.Proto(), CurrentStopSequence: cp(vp.CurSeq),
			StopId: cp(vp.StopID), Timestamp: cp(vp.Ts), OccupancyPercentage: cp(vp.OccPct)}
		if vp.Pos != nil {
			lat, lon := vp.Pos.Lat, vp.Pos.Lon
			x.Position = &gtfsrt.Position{Latitude: &lat, Longitude: &lon, Bearing: cp(vp.Pos.Bearing), Odometer: cp(vp.Pos.Odo), Speed: cp(vp.Pos.Speed)}
		}
		if vp.Status != nil {
			v := gtfsrt.VehiclePosition_VehicleStopStatus(*vp.Status)
			x.CurrentStatus = &v
		}
		if vp.Congestion != nil {
			v := gtfsrt.VehiclePosition_CongestionLevel(*vp.Congestion)
			x.CongestionLevel = &v
		}
		if vp.OccStatus != nil {
			v := gtfsrt.VehiclePosition_OccupancyStatus(*vp.OccStatus)
			x.OccupancyStatus = &v
		}
		p.Vehicle = x
	}
	if al := e.AL; al != nil {
		x := &gtfsrt.Alert{Url: trans(al.URL), HeaderText: trans(al.Header), DescriptionText: trans(al.Desc)}
		for _, pr := range al.Periods {
			x.ActivePeriod = append(x.ActivePeriod, &gtfsrt.TimeRange{Start: cp(pr.Start), End: cp(pr.End)})
		}
		for i := range al.Informed {
			x.InformedEntity = append(x.InformedEntity, al.Informed[i].Proto())
		}
		if al.Cause != nil {
			v := gtfsrt.Alert_Cause(*al.Cause)
			x.Cause = &v
		}
		if al.Effect != nil {
			v := gtfsrt.Alert_Effect(*al.Effect)
			x.Effect = &v
		}
		if m := al.Mercury; m != nil {
			ca, ua, at := m.CreatedAt, m.UpdatedAt, m.AlertType
			ma := &gtfsrt.MercuryAlert{CreatedAt: &ca, UpdatedAt: &ua, AlertType: &at, DisplayBeforeActive: cp(m.DisplayBeforeActive)}
			if m.HasHumanReadable {
				hr := m.HumanReadable
				ma.HumanReadableActivePeriod = trans(&hr)
			}
			proto.SetExtension(x, gtfsrt.E_MercuryAlert, ma)
		}
		p.Alert = x
	}
	return p
}

// Proto renders the model as the generated protobuf structs.
func (m *Msg) Proto() *gtfsrt.FeedMessage {
	version := "2.0"
	h := &gtfsrt.FeedHeader{GtfsRealtimeVersion: &version, Timestamp: cp(m.Timestamp)}
	if m.Incrementality != nil {
		v := gtfsrt.FeedHeader_Incrementality(*m.Incrementality)
		h.Incrementality = &v
	}
	fm := &gtfsrt.FeedMessage{Header: h}
	for i := range m.Entities {
		fm.Entity = append(fm.Entity, m.Entities[i].Proto())
	}
	return fm
}

// Marshal renders the model to wire bytes (deterministic encoding).
func (m *Msg) Marshal() []byte {
	b, err := proto.MarshalOptions{Deterministic: true}.Marshal(m.Proto())
	if err != nil {
		panic("rgen: model does not marshal: " + err.Error())
	}
	return b
}

func cp[T any](p *T) *T {
	if p == nil {
		return nil
	}
	v := *p
	return &v
}

// P returns a pointer to v.
func P[T any](v T) *T { return &v }
