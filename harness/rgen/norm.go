package rgen

import (
	"encoding/json"
	"fmt"
	"math"
	"regexp"
	"sort"
	"strconv"
	"strings"
	"time"

	"github.com/jamespfennell/gtfs"
)

// ---------------------------------------------------------------------------------------------
// Normal forms: plain values, no pointers between entities, comparable with reflect.DeepEqual
// and printable as JSON.

type NTime struct {
	Unix   int64
	Zone   string // Location().String()
	Offset int    // seconds east of UTC at that instant
	Civil  string // wall clock in its own location
}

func NT(t time.Time) NTime {
	_, off := t.Zone()
	return NTime{Unix: t.Unix(), Zone: t.Location().String(), Offset: off, Civil: t.Format("2006-01-02T15:04:05")}
}

func NTp(t *time.Time) *NTime {
	if t == nil {
		return nil
	}
	n := NT(*t)
	return &n
}

type NTripID struct {
	ID, RouteID  string
	Dir          string
	HasStartTime bool
	StartTimeNs  int64
	HasStartDate bool
	StartDate    *NTime // nil when !HasStartDate and the value is the zero time
	SchedRel     int32
}

func (id NTripID) Key() string {
	k := id
	if k.StartDate != nil {
		k.StartDate = &NTime{Unix: id.StartDate.Unix}
	}
	b, _ := json.Marshal(k)
	return string(b)
}

type NEvent struct {
	Time    *NTime
	DelayNs *int64
	Unc     *int32
}

type NSTU struct {
	Seq      *uint32
	StopID   *string
	Arr, Dep *NEvent
	Track    *string
	SchedRel int32
}

type NVID struct{ ID, Label, Plate string }

type NPos struct {
	Lat, Lon, Bearing, Speed *uint32 // float32 bits
	Odo                      *uint64 // float64 bits
}

type NVehicleCore struct {
	ID         *NVID
	Pos        *NPos
	CurSeq     *uint32
	StopID     *string
	Status     *int32
	Ts         *NTime
	Congestion int32
	OccStatus  *int32
	OccPct     *uint32
	InMsg      bool
}

type NTripCore struct {
	ID    NTripID
	STUs  []NSTU
	InMsg bool
}

type NTrip struct {
	NTripCore
	Vehicle *NVehicleCore
	// BackRef describes trip.Vehicle.Trip: "" when Vehicle is nil, "ok" when it leads back to a trip
	// with this trip's content, otherwise what is wrong.
	BackRef string
}

type NVehicle struct {
	NVehicleCore
	Trip    *NTripCore
	BackRef string
}

type NInformed struct {
	Agency, Route *string
	RouteType     int32
	Dir           string
	Trip          *NTripID
	Stop          *string
}

type NText struct{ Text, Lang string }
type NPeriod struct{ Start, End *NTime }

type NAlert struct {
	ID            string
	Cause, Effect int32
	Periods       []NPeriod
	Informed      []NInformed
	Header, Desc  []NText
	URL           []NText
	// Expectation only: route-level entities that must follow Informed, in any order, and routes
	// for which a fallback entity may or may not be present (statement silent).
	Fallback         []NInformed `json:",omitempty"`
	FallbackOptional []string    `json:",omitempty"`
}

type NRealtime struct {
	CreatedAt *NTime
	Trips     []NTrip
	Vehicles  []NVehicle
	Alerts    []NAlert
}

func dirName(d gtfs.DirectionID) string {
	switch d {
	case gtfs.DirectionID_True:
		return "true"
	case gtfs.DirectionID_False:
		return "false"
	case gtfs.DirectionID_Unspecified:
		return "unspecified"
	}
	return fmt.Sprintf("invalid(%d)", d)
}

func nTripID(id gtfs.TripID) NTripID {
	n := NTripID{ID: id.ID, RouteID: id.RouteID, Dir: dirName(id.DirectionID), HasStartTime: id.HasStartTime,
		StartTimeNs: int64(id.StartTime), HasStartDate: id.HasStartDate, SchedRel: int32(id.ScheduleRelationship)}
	if id.HasStartDate || !id.StartDate.IsZero() {
		t := NT(id.StartDate)
		n.StartDate = &t
	}
	return n
}

func nEvent(e *gtfs.StopTimeEvent) *NEvent {
	if e == nil {
		return nil
	}
	out := &NEvent{Time: NTp(e.Time), Unc: cp(e.Uncertainty)}
	if e.Delay != nil {
		d := int64(*e.Delay)
		out.DelayNs = &d
	}
	return out
}

func nTripCore(t *gtfs.Trip) NTripCore {
	c := NTripCore{ID: nTripID(t.ID), InMsg: t.IsEntityInMessage}
	for i := range t.StopTimeUpdates {
		s := &t.StopTimeUpdates[i]
		c.STUs = append(c.STUs, NSTU{Seq: cp(s.StopSequence), StopID: cp(s.StopID), Arr: nEvent(s.Arrival), Dep: nEvent(s.Departure),
			Track: cp(s.NyctTrack), SchedRel: int32(s.ScheduleRelationship)})
	}
	return c
}

func f32bits(p *float32) *uint32 {
	if p == nil {
		return nil
	}
	b := math.Float32bits(*p)
	return &b
}

func nVehicleCore(v *gtfs.Vehicle) NVehicleCore {
	c := NVehicleCore{CurSeq: cp(v.CurrentStopSequence), StopID: cp(v.StopID), Ts: NTp(v.Timestamp),
		Congestion: int32(v.CongestionLevel), OccPct: cp(v.OccupancyPercentage), InMsg: v.IsEntityInMessage}
	if v.ID != nil {
		c.ID = &NVID{ID: v.ID.ID, Label: v.ID.Label, Plate: v.ID.LicensePlate}
	}
	if p := v.Position; p != nil {
		np := &NPos{Lat: f32bits(p.Latitude), Lon: f32bits(p.Longitude), Bearing: f32bits(p.Bearing), Speed: f32bits(p.Speed)}
		if p.Odometer != nil {
			b := math.Float64bits(*p.Odometer)
			np.Odo = &b
		}
		c.Pos = np
	}
	if v.CurrentStatus != nil {
		s := int32(*v.CurrentStatus)
		c.Status = &s
	}
	if v.OccupancyStatus != nil {
		s := int32(*v.OccupancyStatus)
		c.OccStatus = &s
	}
	return c
}

func jsonEq(a, b any) bool {
	x, _ := json.Marshal(a)
	y, _ := json.Marshal(b)
	return string(x) == string(y)
}

// Normalize converts a library result to its normal form.
func Normalize(r *gtfs.Realtime) NRealtime {
	var n NRealtime
	if !r.CreatedAt.IsZero() {
		t := NT(r.CreatedAt)
		n.CreatedAt = &t
	}
	for i := range r.Trips {
		t := &r.Trips[i]
		nt := NTrip{NTripCore: nTripCore(t)}
		if t.Vehicle != nil {
			vc := nVehicleCore(t.Vehicle)
			nt.Vehicle = &vc
			switch {
			case t.Vehicle.Trip == nil:
				nt.BackRef = "vehicle.Trip is nil"
			case !jsonEq(nTripCore(t.Vehicle.Trip), nt.NTripCore):
				nt.BackRef = "vehicle.Trip is a different trip"
			case t.Vehicle.Trip.Vehicle == nil || !jsonEq(nVehicleCore(t.Vehicle.Trip.Vehicle), vc):
				nt.BackRef = "vehicle.Trip.Vehicle does not lead back to the vehicle"
			default:
				nt.BackRef = "ok"
			}
		}
		n.Trips = append(n.Trips, nt)
	}
	for i := range r.Vehicles {
		v := &r.Vehicles[i]
		nv := NVehicle{NVehicleCore: nVehicleCore(v)}
		if v.Trip != nil {
			tc := nTripCore(v.Trip)
			nv.Trip = &tc
			switch {
			case v.Trip.Vehicle == nil:
				nv.BackRef = "trip.Vehicle is nil"
			case !jsonEq(nVehicleCore(v.Trip.Vehicle), nv.NVehicleCore):
				nv.BackRef = "trip.Vehicle is a different vehicle"
			case v.Trip.Vehicle.Trip == nil || !jsonEq(nTripCore(v.Trip.Vehicle.Trip), tc):
				nv.BackRef = "trip.Vehicle.Trip does not lead back to the trip"
			default:
				nv.BackRef = "ok"
			}
		}
		n.Vehicles = append(n.Vehicles, nv)
	}
	for i := range r.Alerts {
		a := &r.Alerts[i]
		na := NAlert{ID: a.ID, Cause: int32(a.Cause), Effect: int32(a.Effect)}
		for _, p := range a.ActivePeriods {
			na.Periods = append(na.Periods, NPeriod{Start: NTp(p.StartsAt), End: NTp(p.EndsAt)})
		}
		for _, e := range a.InformedEntities {
			ni := NInformed{Agency: cp(e.AgencyID), Route: cp(e.RouteID), RouteType: int32(e.RouteType), Dir: dirName(e.DirectionID), Stop: cp(e.StopID)}
			if e.TripID != nil {
				id := nTripID(*e.TripID)
				ni.Trip = &id
			}
			na.Informed = append(na.Informed, ni)
		}
		conv := func(ts []gtfs.AlertText) []NText {
			var out []NText
			for _, t := range ts {
				out = append(out, NText{t.Text, t.Language})
			}
			return out
		}
		na.Header, na.Desc, na.URL = conv(a.Header), conv(a.Description), conv(a.URL)
		n.Alerts = append(n.Alerts, na)
	}
	return n
}

// ---------------------------------------------------------------------------------------------
// Zones

// Loc resolves a zone spec: "" (nil option), "UTC", an IANA name, or "fixed:+05:45".
func Loc(spec string) *time.Location {
	switch {
	case spec == "":
		return nil
	case spec == "UTC":
		return time.UTC
	case strings.HasPrefix(spec, "named:"): // named:<name>:<+HH:MM> - fixed zones that share a NAME and differ in offset
		rest := spec[len("named:"):]
		i := strings.LastIndex(rest[:len(rest)-3], ":")
		name, s := rest[:i], rest[i+1:]
		sign := 1
		if s[0] == '-' {
			sign = -1
		}
		h, _ := strconv.Atoi(s[1:3])
		m, _ := strconv.Atoi(s[4:6])
		return time.FixedZone(name, sign*(h*3600+m*60))
	case strings.HasPrefix(spec, "fixed:"):
		s := spec[len("fixed:"):]
		sign := 1
		if s[0] == '-' {
			sign = -1
		}
		h, _ := strconv.Atoi(s[1:3])
		m, _ := strconv.Atoi(s[4:6])
		return time.FixedZone(s, sign*(h*3600+m*60))
	}
	loc, err := time.LoadLocation(spec)
	if err != nil {
		panic("rgen: unknown zone " + spec)
	}
	return loc
}

// LocOrUTC is the zone results are expected to be presented in.
func LocOrUTC(spec string) *time.Location {
	if l := Loc(spec); l != nil {
		return l
	}
	return time.UTC
}

// Zones is the pool used by generators.
var Zones = []string{"", "UTC", "fixed:+05:45", "fixed:-09:30", "fixed:+14:00", "America/New_York", "Europe/London",
	"Australia/Lord_Howe", "Asia/Kathmandu", "America/Havana", "America/Sao_Paulo",
	"named:EST:-05:00", "named:EST:+10:00", "named::+03:00", "named::-03:00", "named:UTC:+01:00", "named:America/New_York:+02:00"}

// MidnightOK reports whether local midnight of the civil date exists exactly once in loc and no
// offset change happens within an hour of it (so "the start of that day" is unambiguous).
func MidnightOK(y, m, d int, loc *time.Location) bool {
	t := time.Date(y, time.Month(m), d, 0, 0, 0, 0, loc)
	if t.Hour() != 0 || t.Minute() != 0 || t.Day() != d || int(t.Month()) != m || t.Year() != y {
		return false
	}
	_, o := t.Zone()
	for _, dt := range []time.Duration{-time.Hour, -time.Second, time.Second, time.Hour} {
		if _, o2 := t.Add(dt).Zone(); o2 != o {
			return false
		}
	}
	return true
}

// ---------------------------------------------------------------------------------------------
// Reference transcription

var reStartTime = regexp.MustCompile(`^[0-9]{2}:[0-9]{2}:[0-9]{2}$`)
var reStartDate = regexp.MustCompile(`^[0-9]{8}$`)

// ExpectTripID is the reference decoding of a trip descriptor.
func ExpectTripID(d *TripDesc, loc *time.Location) NTripID {
	id := NTripID{Dir: "unspecified"}
	if d.TripID != nil {
		id.ID = *d.TripID
	}
	if d.RouteID != nil {
		id.RouteID = *d.RouteID
	}
	if d.Direction != nil {
		if *d.Direction == 0 {
			id.Dir = "false"
		} else {
			id.Dir = "true"
		}
	}
	if d.StartTime != nil && reStartTime.MatchString(*d.StartTime) {
		s := *d.StartTime
		h, _ := strconv.Atoi(s[0:2])
		m, _ := strconv.Atoi(s[3:5])
		sec, _ := strconv.Atoi(s[6:8])
		id.HasStartTime = true
		id.StartTimeNs = int64(h*3600+m*60+sec) * 1e9
	}
	if d.StartDate != nil && reStartDate.MatchString(*d.StartDate) {
		s := *d.StartDate
		y, _ := strconv.Atoi(s[0:4])
		m, _ := strconv.Atoi(s[4:6])
		dd, _ := strconv.Atoi(s[6:8])
		id.HasStartDate = true
		t := NT(time.Date(y, time.Month(m), dd, 0, 0, 0, 0, loc))
		id.StartDate = &t
	}
	if d.SchedRel != nil {
		id.SchedRel = *d.SchedRel
	}
	return id
}

// Identifying: a trip id, or route + direction + start time + start date.
func Identifying(id NTripID) bool {
	return id.ID != "" || (id.RouteID != "" && id.Dir != "unspecified" && id.HasStartTime && id.HasStartDate)
}

func expTime(u int64, loc *time.Location) *NTime {
	t := NT(time.Unix(u, 0).In(loc))
	return &t
}

func expUTime(u *uint64, loc *time.Location) *NTime {
	if u == nil {
		return nil
	}
	return expTime(int64(*u), loc)
}

func expEvent(e *Event, loc *time.Location) *NEvent {
	if e == nil {
		return nil
	}
	out := &NEvent{Unc: cp(e.Unc)}
	if e.Time != nil {
		out.Time = expTime(*e.Time, loc)
	}
	if e.Delay != nil {
		d := int64(*e.Delay) * 1e9
		out.DelayNs = &d
	}
	return out
}

var knownRouteTypes = map[int32]bool{0: true, 1: true, 2: true, 3: true, 4: true, 5: true, 6: true, 7: true, 11: true, 12: true}

const routeTypeUnknown = 10000

func vidOf(d *VehDesc) *NVID {
	if d == nil {
		return nil
	}
	v := NVID{}
	if d.ID != nil {
		v.ID = *d.ID
	}
	if d.Label != nil {
		v.Label = *d.Label
	}
	if d.Plate != nil {
		v.Plate = *d.Plate
	}
	if v == (NVID{}) {
		return nil
	}
	return &v
}

// ExpectOpts tunes the reference for extension-aware callers.
type ExpectOpts struct {
	// Track returns the expected NyctTrack of a stop time update (nil without an extension).
	Track func(s *STU) *string
}

// ExpectAlertInformed is the reference normalisation of an alert's selectors (property C12).
func ExpectAlertInformed(sels []Selector, loc *time.Location) (informed []NInformed, fallback []NInformed, optional []string, trips []NTripID) {
	explicitRoutes := map[string]bool{}
	type fb struct {
		dirs    map[string]bool
		partial bool
		order   int
	}
	fbs := map[string]*fb{}
	var fbOrder []string
	for i := range sels {
		s := &sels[i]
		if s.Route != nil {
			explicitRoutes[*s.Route] = true
		}
		var tid *NTripID
		if s.Trip != nil {
			t := ExpectTripID(s.Trip, loc)
			tid = &t
		}
		ident := tid != nil && Identifying(*tid)
		if tid != nil && !ident && tid.RouteID != "" {
			f := fbs[tid.RouteID]
			if f == nil {
				f = &fb{dirs: map[string]bool{}}
				fbs[tid.RouteID] = f
				fbOrder = append(fbOrder, tid.RouteID)
			}
			if tid.Dir == "unspecified" {
				f.dirs["true"], f.dirs["false"] = true, true
			} else {
				f.dirs[tid.Dir] = true
			}
			// "names only a route (optionally a direction)": anything else in the descriptor makes it partial
			if tid.HasStartTime || tid.HasStartDate || s.Trip.StartTime != nil || s.Trip.StartDate != nil || s.Trip.SchedRel != nil {
				f.partial = true
			}
		}
		rt := int32(routeTypeUnknown)
		if s.RouteType != nil && knownRouteTypes[*s.RouteType] {
			rt = *s.RouteType
		}
		informs := s.Agency != nil || s.Route != nil || rt != routeTypeUnknown || s.Stop != nil || ident
		if !informs {
			continue
		}
		ni := NInformed{Agency: cp(s.Agency), Route: cp(s.Route), RouteType: rt, Dir: "unspecified", Stop: cp(s.Stop)}
		if s.Direction != nil {
			if *s.Direction == 0 {
				ni.Dir = "false"
			} else {
				ni.Dir = "true"
			}
		}
		if ident {
			ni.Trip = tid
			trips = append(trips, *tid)
		}
		informed = append(informed, ni)
	}
	for _, r := range fbOrder {
		if explicitRoutes[r] {
			continue
		}
		f := fbs[r]
		if f.partial {
			optional = append(optional, r)
			continue
		}
		route := r
		e := NInformed{Route: &route, RouteType: routeTypeUnknown, Dir: "unspecified"}
		if !(f.dirs["true"] && f.dirs["false"]) {
			if f.dirs["true"] {
				e.Dir = "true"
			} else {
				e.Dir = "false"
			}
		}
		fallback = append(fallback, e)
	}
	return
}

func expTexts(ts *[]Translation) []NText {
	if ts == nil {
		return nil
	}
	var out []NText
	for _, t := range *ts {
		n := NText{Text: t.Text}
		if t.Lang != nil {
			n.Lang = *t.Lang
		}
		out = append(out, n)
	}
	return out
}

// ExpectAlert is the reference transcription of one alert entity.
func ExpectAlert(id string, al *Alert, loc *time.Location) (NAlert, []NTripID) {
	na := NAlert{ID: id, Cause: 1, Effect: 8}
	if al.Cause != nil {
		na.Cause = *al.Cause
	}
	if al.Effect != nil {
		na.Effect = *al.Effect
	}
	for _, p := range al.Periods {
		na.Periods = append(na.Periods, NPeriod{Start: expUTime(p.Start, loc), End: expUTime(p.End, loc)})
	}
	var trips []NTripID
	na.Informed, na.Fallback, na.FallbackOptional, trips = ExpectAlertInformed(al.Informed, loc)
	na.Header, na.Desc, na.URL = expTexts(al.Header), expTexts(al.Desc), expTexts(al.URL)
	return na, trips
}

// Expect is the reference transcription of a conflict-free message (properties C02/C04/C07).
// Trips and Vehicles come out in first-mention order; compare with Compare, which is
// order-insensitive where no property fixes an order.
func Expect(m *Msg, zone string, o ExpectOpts) NRealtime {
	loc := LocOrUTC(zone)
	var n NRealtime
	if m.Timestamp != nil {
		n.CreatedAt = expTime(int64(*m.Timestamp), loc)
	}
	tripIdx := map[string]int{}
	getTrip := func(id NTripID) int {
		k := id.Key()
		if i, ok := tripIdx[k]; ok {
			return i
		}
		n.Trips = append(n.Trips, NTrip{NTripCore: NTripCore{ID: id}})
		tripIdx[k] = len(n.Trips) - 1
		return len(n.Trips) - 1
	}
	vehIdx := map[NVID]int{}
	getVeh := func(id *NVID) int {
		if id != nil {
			if i, ok := vehIdx[*id]; ok {
				return i
			}
		}
		n.Vehicles = append(n.Vehicles, NVehicle{NVehicleCore: NVehicleCore{ID: id}})
		if id != nil {
			vehIdx[*id] = len(n.Vehicles) - 1
		}
		return len(n.Vehicles) - 1
	}
	assoc := map[int]int{} // trip index -> vehicle index
	for ei := range m.Entities {
		e := &m.Entities[ei]
		switch {
		case e.TU != nil:
			ti := getTrip(ExpectTripID(&e.TU.Trip, loc))
			t := &n.Trips[ti]
			t.InMsg = true
			t.STUs = nil
			for si := range e.TU.STUs {
				s := &e.TU.STUs[si]
				ns := NSTU{Seq: cp(s.Seq), StopID: cp(s.StopID), Arr: expEvent(s.Arr, loc), Dep: expEvent(s.Dep, loc)}
				if s.SchedRel != nil {
					ns.SchedRel = *s.SchedRel
				}
				if o.Track != nil {
					ns.Track = o.Track(s)
				}
				t.STUs = append(t.STUs, ns)
			}
			if e.TU.Vehicle != nil {
				vi := getVeh(vidOf(e.TU.Vehicle))
				assoc[ti] = vi
			}
		case e.VP != nil:
			vp := e.VP
			vi := getVeh(vidOf(vp.Vehicle))
			v := &n.Vehicles[vi]
			v.InMsg = true
			v.CurSeq, v.StopID, v.Status, v.OccStatus, v.OccPct = cp(vp.CurSeq), cp(vp.StopID), cp(vp.Status), cp(vp.OccStatus), cp(vp.OccPct)
			v.Ts = expUTime(vp.Ts, loc)
			if vp.Congestion != nil {
				v.Congestion = *vp.Congestion
			}
			if vp.Pos != nil {
				lat, lon := vp.Pos.Lat, vp.Pos.Lon
				np := &NPos{Lat: f32bits(&lat), Lon: f32bits(&lon), Bearing: f32bits(vp.Pos.Bearing), Speed: f32bits(vp.Pos.Speed)}
				if vp.Pos.Odo != nil {
					b := math.Float64bits(*vp.Pos.Odo)
					np.Odo = &b
				}
				v.Pos = np
			}
			if vp.Trip != nil {
				ti := getTrip(ExpectTripID(vp.Trip, loc))
				assoc[ti] = vi
			}
		case e.AL != nil:
			na, trips := ExpectAlert(e.ID, e.AL, loc)
			n.Alerts = append(n.Alerts, na)
			for _, id := range trips {
				getTrip(id)
			}
		}
	}
	for ti, vi := range assoc {
		vc := n.Vehicles[vi].NVehicleCore
		n.Trips[ti].Vehicle = &vc
		n.Trips[ti].BackRef = "ok"
		tc := n.Trips[ti].NTripCore
		n.Vehicles[vi].Trip = &tc
		n.Vehicles[vi].BackRef = "ok"
	}
	return n
}

func js(v any) string {
	b, _ := json.Marshal(v)
	return string(b)
}

// Compare reports the first difference between the observed and the expected normal form.
// Trips are matched by identifier, vehicles as a multiset, alerts positionally with the fallback
// entities as a set.
func Compare(got, want NRealtime) error {
	if !jsonEq(got.CreatedAt, want.CreatedAt) {
		return fmt.Errorf("CreatedAt: got %s want %s", js(got.CreatedAt), js(want.CreatedAt))
	}
	gt := map[string]NTrip{}
	for _, t := range got.Trips {
		k := t.ID.Key()
		if _, dup := gt[k]; dup {
			return fmt.Errorf("Trips holds two entries for %s", k)
		}
		gt[k] = t
	}
	for _, w := range want.Trips {
		g, ok := gt[w.ID.Key()]
		if !ok {
			return fmt.Errorf("trip %s is missing from Trips (got %d trips: %s)", w.ID.Key(), len(got.Trips), js(got.Trips))
		}
		if !jsonEq(g, w) {
			return fmt.Errorf("trip differs:\n got  %s\n want %s", js(g), js(w))
		}
		delete(gt, w.ID.Key())
	}
	for k := range gt {
		return fmt.Errorf("Trips holds an entry nothing in the message mentions: %s", k)
	}
	gv := make([]string, 0, len(got.Vehicles))
	for _, v := range got.Vehicles {
		gv = append(gv, js(v))
	}
	wv := make([]string, 0, len(want.Vehicles))
	for _, v := range want.Vehicles {
		wv = append(wv, js(v))
	}
	sort.Strings(gv)
	sort.Strings(wv)
	if len(gv) != len(wv) {
		return fmt.Errorf("Vehicles has %d entries, want %d:\n got  %v\n want %v", len(gv), len(wv), gv, wv)
	}
	for i := range gv {
		if gv[i] != wv[i] {
			return fmt.Errorf("vehicle differs (multiset comparison):\n got  %s\n want %s", gv[i], wv[i])
		}
	}
	if len(got.Alerts) != len(want.Alerts) {
		return fmt.Errorf("Alerts has %d entries, want %d", len(got.Alerts), len(want.Alerts))
	}
	for i := range want.Alerts {
		if err := CompareAlert(got.Alerts[i], want.Alerts[i]); err != nil {
			return fmt.Errorf("alert %d (%q): %v", i, want.Alerts[i].ID, err)
		}
	}
	return nil
}

// CompareAlert compares one alert against its expectation.
func CompareAlert(g, w NAlert) error {
	n := len(w.Informed)
	if len(g.Informed) < n {
		return fmt.Errorf("informed entities: got %s want prefix %s", js(g.Informed), js(w.Informed))
	}
	if !jsonEq(g.Informed[:n], w.Informed) && !(n == 0) {
		return fmt.Errorf("informed entities: got %s want prefix %s", js(g.Informed[:n]), js(w.Informed))
	}
	rest := g.Informed[n:]
	need := map[string]int{}
	for _, f := range w.Fallback {
		need[js(f)]++
	}
	opt := map[string]bool{}
	for _, r := range w.FallbackOptional {
		opt[r] = true
	}
	for _, e := range rest {
		k := js(e)
		if need[k] > 0 {
			need[k]--
			continue
		}
		if e.Route != nil && opt[*e.Route] && e.Agency == nil && e.Stop == nil && e.Trip == nil && e.RouteType == routeTypeUnknown {
			opt[*e.Route] = false
			continue
		}
		return fmt.Errorf("unexpected informed entity %s after the %d selector-derived ones (expected fallback set %s)", k, n, js(w.Fallback))
	}
	for k, c := range need {
		if c > 0 {
			return fmt.Errorf("missing route-level informed entity %s; got tail %s", k, js(rest))
		}
	}
	g.Informed, w.Informed, w.Fallback, w.FallbackOptional = nil, nil, nil, nil
	if !jsonEq(g, w) {
		return fmt.Errorf("differs:\n got  %s\n want %s", js(g), js(w))
	}
	return nil
}

// CompareLinks compares only the trip<->vehicle association part of two normal forms (C04).
func CompareLinks(got, want NRealtime) error {
	gt := map[string]NTrip{}
	for _, t := range got.Trips {
		gt[t.ID.Key()] = t
	}
	for _, w := range want.Trips {
		g, ok := gt[w.ID.Key()]
		if !ok {
			return fmt.Errorf("trip %s is missing from Trips", w.ID.Key())
		}
		if !jsonEq(g.Vehicle, w.Vehicle) {
			return fmt.Errorf("trip %s: Vehicle reference\n got  %s\n want %s", w.ID.Key(), js(g.Vehicle), js(w.Vehicle))
		}
		if g.BackRef != w.BackRef {
			return fmt.Errorf("trip %s: following Trip.Vehicle.Trip: %q (want %q)", w.ID.Key(), g.BackRef, w.BackRef)
		}
	}
	type link struct {
		V       NVehicleCore
		Trip    *NTripCore
		BackRef string
	}
	var gv, wv []string
	for _, v := range got.Vehicles {
		gv = append(gv, js(link{v.NVehicleCore, v.Trip, v.BackRef}))
	}
	for _, v := range want.Vehicles {
		wv = append(wv, js(link{v.NVehicleCore, v.Trip, v.BackRef}))
	}
	sort.Strings(gv)
	sort.Strings(wv)
	if len(gv) != len(wv) {
		return fmt.Errorf("Vehicles has %d entries, want %d", len(gv), len(wv))
	}
	for i := range gv {
		if gv[i] != wv[i] {
			return fmt.Errorf("vehicle and its Trip reference differ (multiset comparison):\n got  %s\n want %s", gv[i], wv[i])
		}
	}
	return nil
}

// JS renders v as JSON (for messages).
func JS(v any) string { return js(v) }

// Normalize1Vehicle / Normalize1Trip expose the content normal form of a single object.
func Normalize1Vehicle(v *gtfs.Vehicle) NVehicleCore { return nVehicleCore(v) }
func Normalize1Trip(t *gtfs.Trip) NTripCore          { return nTripCore(t) }

// Canon returns a copy in which everything whose order no property fixes outside C06 is sorted:
// vehicles, and the informed entities of each alert (as a multiset). Trips are sorted by key.
// Two library results for equivalent inputs must have equal Canon forms.
func Canon(n NRealtime) NRealtime {
	c := n
	c.Trips = append([]NTrip(nil), n.Trips...)
	sort.SliceStable(c.Trips, func(i, j int) bool { return c.Trips[i].ID.Key() < c.Trips[j].ID.Key() })
	c.Vehicles = append([]NVehicle(nil), n.Vehicles...)
	sort.SliceStable(c.Vehicles, func(i, j int) bool { return js(c.Vehicles[i]) < js(c.Vehicles[j]) })
	c.Alerts = append([]NAlert(nil), n.Alerts...)
	for i := range c.Alerts {
		inf := append([]NInformed(nil), c.Alerts[i].Informed...)
		sort.SliceStable(inf, func(a, b int) bool { return js(inf[a]) < js(inf[b]) })
		c.Alerts[i].Informed = inf
	}
	return c
}

// CanonJS is the JSON of the canonical form.
func CanonJS(n NRealtime) string { return js(Canon(n)) }

// FirstDiff shows the surroundings of the first position at which two strings differ.
func FirstDiff(a, b string) string {
	i := 0
	for i < len(a) && i < len(b) && a[i] == b[i] {
		i++
	}
	lo := i - 160
	if lo < 0 {
		lo = 0
	}
	cut := func(s string) string {
		hi := i + 160
		if hi > len(s) {
			hi = len(s)
		}
		if lo > len(s) {
			return ""
		}
		return s[lo:hi]
	}
	return fmt.Sprintf("first difference at offset %d:\n   …%s…\n   …%s…", i, cut(a), cut(b))
}
