package rgen

import (
	"fmt"
	"strconv"
	"strings"

	"pgregory.net/rapid"
)

// GenOpts bounds the generated messages.
type GenOpts struct {
	Zone         string // needed so start dates avoid days without a unique local midnight
	MaxTrips     int
	MaxVehicles  int
	MaxIdless    int
	MaxAlerts    int
	MaxSTU       int
	MaxSelectors int
	// NoPartialDescriptors keeps alert trip descriptors to the classes for which the fallback
	// rule is fully determined by the statement.
	NoPartialDescriptors bool
	// NoSizeClasses switches off the occasional large message (17/33/70 trips, updates, selectors or alerts).
	NoSizeClasses bool
	// lower bounds (0 by default)
	MinTrips, MinVehicles, MinAlerts, MinSTU, MinSelectors, MinIdless int
}

func DefaultGenOpts(zone string) GenOpts {
	return GenOpts{Zone: zone, MaxTrips: 5, MaxVehicles: 4, MaxIdless: 2, MaxAlerts: 3, MaxSTU: 5, MaxSelectors: 5}
}

var idStrings = []string{"A", "b", "1", "L03N", "123456_A..N", "x y", "é", "漢", "a,b", "\"q\"", " lead", "T", "t", "0", longID, longID, hugeID}

// longID is longer than any small fixed buffer (300 bytes); hugeID longer than 64 KiB.
var longID = strings.Repeat("long-identifier-", 19)
var hugeID = strings.Repeat("0123456789abcdef", 4200)

func opt[T any](t *rapid.T, label string, g *rapid.Generator[T]) *T {
	if rapid.Bool().Draw(t, label+"?") {
		v := g.Draw(t, label)
		return &v
	}
	return nil
}

var (
	gTime64   = rapid.OneOf(rapid.Int64Range(1_600_000_000, 1_800_000_000), rapid.SampledFrom([]int64{0, 1, -1, -(1 << 31), 1 << 31, 1 << 32, 1 << 40, 1 << 62, 1699164000, 1699163999, 1678604400, 1678604399, 1711846800, 1698541200}))
	gUTime64  = rapid.OneOf(rapid.Uint64Range(1_600_000_000, 1_800_000_000), rapid.SampledFrom([]uint64{0, 1, 1 << 31, 1 << 32, 1 << 40, 1 << 62, 1699164000, 1699163999, 1678604400, 1678604399, 1711846800, 1698541200}))
	gDelay    = rapid.OneOf(rapid.Int32Range(-3600, 3600), rapid.SampledFrom([]int32{0, 1, -1, 1<<31 - 1, -(1 << 31), 86400}))
	gUnc      = rapid.SampledFrom([]int32{0, 1, -1, 30, 1<<31 - 1, -(1 << 31)})
	gU32      = rapid.OneOf(rapid.Uint32Range(0, 50), rapid.SampledFrom([]uint32{0, 1, 1<<31 - 1, 1 << 31, 1<<32 - 1}))
	gF32      = rapid.OneOf(rapid.Float32Range(-180, 180), rapid.SampledFrom([]float32{0, -0.0, 1, -1, 40.7527, -73.9772, 3.4e38, -3.4e38, 1e-45}))
	gF64      = rapid.OneOf(rapid.Float64Range(0, 1e6), rapid.SampledFrom([]float64{0, 1, -1, 1e300, 5e-324, 0.1}))
	gStopID   = rapid.SampledFrom([]string{"", "S1", "S2", "L03N", "M11N", "M11S", "M12S", "M13N", "M14S", "M16N", "M18S", "M11X", "M160", "M10N", "M15S", "M19N", "M18", "M18NN", "m11N", "a b", "é"})
	gTripRel  = rapid.SampledFrom([]int32{0, 1, 2, 3, 5, 6, 7})
	gSTURel   = rapid.SampledFrom([]int32{0, 1, 2, 3})
	gStatus   = rapid.SampledFrom([]int32{0, 1, 2})
	gCongest  = rapid.SampledFrom([]int32{0, 1, 2, 3, 4})
	gOccStat  = rapid.SampledFrom([]int32{0, 1, 2, 3, 4, 5, 6, 7, 8})
	gCause    = rapid.SampledFrom([]int32{1, 2, 3, 4, 5, 6, 7, 8, 9, 10, 11, 12})
	gEffect   = rapid.SampledFrom([]int32{1, 2, 3, 4, 5, 6, 7, 8, 9, 10, 11})
	gLang     = rapid.SampledFrom([]string{"", "en", "es", "en-US"})
	gText     = rapid.SampledFrom([]string{"", "Delays", "No service on <b>L</b>", "línea 7", "a\nb", "x,y"})
	gAgencyID = rapid.SampledFrom([]string{"MTA", "A", "x y"})
)

// DSTDays are civil dates on which some pool zone changes its offset.
var DSTDays = [][3]int{{2024, 3, 10}, {2024, 11, 3}, {2023, 3, 12}, {2023, 11, 5}, {2024, 3, 31}, {2024, 10, 27}, {2024, 4, 7}, {2024, 10, 6},
	{2024, 3, 9}, {2024, 3, 11}, {2024, 11, 2}, {2024, 11, 4}, {2018, 11, 4}, {2019, 2, 17}, {2024, 3, 17}, {2022, 11, 6}}

// GenDate draws a civil date whose local midnight exists exactly once in loc.
func GenDate(t *rapid.T, label string, zone string) string {
	loc := LocOrUTC(zone)
	y := rapid.OneOf(rapid.IntRange(1990, 2060), rapid.SampledFrom([]int{1, 1970, 9999, 2023, 2024})).Draw(t, label+"Y")
	m := rapid.IntRange(1, 12).Draw(t, label+"M")
	d := rapid.IntRange(1, 28).Draw(t, label+"D")
	if rapid.IntRange(0, 7).Draw(t, label+"MonthEnd") == 0 {
		d = []int{31, 28, 31, 30, 31, 30, 31, 31, 30, 31, 30, 31}[m-1]
		if m == 2 && y%4 == 0 && (y%100 != 0 || y%400 == 0) {
			d = 29
		}
	}
	if rapid.IntRange(0, 5).Draw(t, label+"DSTDay") == 0 {
		// days on which the zone's offset changes (02:00 transitions of New York, London, Lord Howe; midnight ones of Havana, Sao Paulo, which the loop below steps over)
		ymd := rapid.SampledFrom(DSTDays).Draw(t, label+"DSTDate")
		y, m, d = ymd[0], ymd[1], ymd[2]
	}
	for i := 0; i < 5 && !MidnightOK(y, m, d, loc); i++ {
		d++ // steer away from days without a unique local midnight (d <= 28+5 may roll; re-normalised below)
		if d > 28 {
			d = 1
			m = m%12 + 1
		}
	}
	return fmt.Sprintf("%04d%02d%02d", y, m, d)
}

func genHMS(t *rapid.T, label string) string {
	h := rapid.OneOf(rapid.IntRange(0, 29), rapid.SampledFrom([]int{0, 23, 24, 47, 99})).Draw(t, label+"H")
	m := rapid.IntRange(0, 59).Draw(t, label+"M")
	s := rapid.IntRange(0, 59).Draw(t, label+"S")
	return fmt.Sprintf("%02d:%02d:%02d", h, m, s)
}

// GenTripDesc draws a descriptor that is distinct from every descriptor drawn with another idx.
func GenTripDesc(t *rapid.T, idx int, zone string) TripDesc {
	var d TripDesc
	base := rapid.SampledFrom(idStrings).Draw(t, "tripIdBase")
	mode := rapid.IntRange(0, 9).Draw(t, "descMode")
	switch {
	case mode <= 5: // trip id (+ anything)
		d.TripID = P(fmt.Sprintf("%s-%d", base, idx))
		if rapid.IntRange(0, 5).Draw(t, "prefixID") == 0 {
			// ids that are prefixes / suffixes of one another: "A-1", "A-1x", "xA-1" ... (idx keeps them distinct)
			d.TripID = P(rapid.SampledFrom([]string{"%d", "%d0", "0%d", "%dx", "x%d", "%d ", "twin", "twin"}).Draw(t, "prefixShape"))
			if *d.TripID == "twin" {
				*d.TripID = numericTwin(idx)
			} else {
				*d.TripID = fmt.Sprintf(*d.TripID, idx)
			}
		}
		if rapid.Bool().Draw(t, "route?") {
			d.RouteID = P(rapid.SampledFrom([]string{"R", "M", "7X", "r 1", "m", "M "}).Draw(t, "route"))
		}
	case mode <= 8: // no trip id, unique route id
		d.RouteID = P(fmt.Sprintf("R%s%d", base, idx))
	default: // neither: uniqueness through the start time
		d.StartTime = P(fmt.Sprintf("%02d:%02d:%02d", 10+idx/60, idx%60, rapid.IntRange(0, 59).Draw(t, "sec")))
	}
	d.Direction = opt(t, "dir", rapid.Uint32Range(0, 1))
	if d.StartTime == nil && rapid.Bool().Draw(t, "startTime?") {
		d.StartTime = P(genHMS(t, "startTime"))
	}
	if rapid.Bool().Draw(t, "startDate?") {
		d.StartDate = P(GenDate(t, "startDate", zone))
	}
	d.SchedRel = opt(t, "rel", gTripRel)
	return d
}

// numericTwin gives distinct strings for distinct idx such that four neighbouring idx read as the SAME decimal number
// ("9000001", "09000001", "009000001", "+9000001"): ids that a numeric comparison cannot tell apart. The number is far above
// every idx in use, so that the strings cannot coincide with the other id shapes.
func numericTwin(idx int) string {
	return []string{"", "0", "00", "+"}[idx%4] + strconv.Itoa(9_000_000+idx/4)
}

// GenVehDesc draws a non-empty vehicle descriptor, distinct per idx.
func GenVehDesc(t *rapid.T, idx int) VehDesc {
	u := fmt.Sprintf("%s%d", rapid.SampledFrom([]string{"V", "v", "1", "é", " ", "twin", "twin"}).Draw(t, "vehBase"), idx)
	if strings.HasPrefix(u, "twin") {
		u = numericTwin(idx)
	}
	var d VehDesc
	switch rapid.IntRange(0, 5).Draw(t, "vehMode") {
	case 0, 1, 2:
		d.ID = &u
		d.Label = opt(t, "label", rapid.SampledFrom([]string{"", "Car 1", "x", u, u + " "}))
		d.Plate = opt(t, "plate", rapid.SampledFrom([]string{"", "ABC-123", u}))
	case 3:
		d.Label = &u
	case 4:
		d.Plate = &u
	default:
		d.Label = &u
		d.Plate = P("P" + u)
	}
	return d
}

func genEvent(t *rapid.T, l string) *Event {
	if !rapid.Bool().Draw(t, l+"?") {
		return nil
	}
	return &Event{Time: opt(t, l+"Time", gTime64), Delay: opt(t, l+"Delay", gDelay), Unc: opt(t, l+"Unc", gUnc)}
}

func GenSTU(t *rapid.T) STU {
	return STU{Seq: opt(t, "seq", gU32), StopID: opt(t, "stopID", gStopID), Arr: genEvent(t, "arr"), Dep: genEvent(t, "dep"),
		SchedRel: opt(t, "stuRel", gSTURel)}
}

func genTranslations(t *rapid.T, l string) *[]Translation {
	if !rapid.Bool().Draw(t, l+"?") {
		return nil
	}
	n := rapid.IntRange(0, 3).Draw(t, l+"N")
	ts := []Translation{}
	for i := 0; i < n; i++ {
		ts = append(ts, Translation{Text: gText.Draw(t, l+"Text"), Lang: opt(t, l+"Lang", gLang)})
	}
	return &ts
}

// GenSelector draws an alert selector. pool are descriptors of trips that exist elsewhere in the
// message (may be empty).
func GenSelector(t *rapid.T, pool []TripDesc, zone string, noPartial bool) Selector {
	var s Selector
	focus := rapid.IntRange(0, 11).Draw(t, "selFocus")
	if focus == 0 { // a selector that names nothing
		if rapid.Bool().Draw(t, "uselessDir?") {
			s.Direction = P(uint32(rapid.IntRange(0, 1).Draw(t, "uselessDir")))
		}
		if rapid.Bool().Draw(t, "unknownRouteType?") {
			s.RouteType = P(rapid.SampledFrom([]int32{8, 9, 10, 13, 100, -1, 10000}).Draw(t, "unknownRouteType"))
		}
		return s
	}
	s.Agency = opt(t, "agency", gAgencyID)
	if rapid.IntRange(0, 2).Draw(t, "selRoute?") == 0 {
		s.Route = P(rapid.SampledFrom([]string{"R1", "R2", "R3", "M", "r1", "m", "R1 "}).Draw(t, "selRoute"))
	}
	if rapid.IntRange(0, 3).Draw(t, "routeType?") == 0 {
		s.RouteType = P(rapid.SampledFrom([]int32{0, 1, 2, 3, 4, 5, 6, 7, 11, 12, 8, 9, 10, 13, 100, -1, 10000}).Draw(t, "routeType"))
	}
	s.Direction = opt(t, "selDir", rapid.Uint32Range(0, 1))
	if rapid.IntRange(0, 2).Draw(t, "selStop?") == 0 {
		s.Stop = P(rapid.SampledFrom([]string{"S1", "S2", "L03"}).Draw(t, "selStop"))
	}
	tripMode := rapid.IntRange(0, 9).Draw(t, "selTripMode")
	switch {
	case tripMode <= 2:
	case tripMode <= 4 && len(pool) > 0:
		d := pool[rapid.IntRange(0, len(pool)-1).Draw(t, "poolTrip")]
		s.Trip = &d
	case tripMode <= 7: // route (+direction) only: the fallback class
		d := TripDesc{RouteID: P(rapid.SampledFrom([]string{"R1", "R2", "R3", "R4", "r1", "r2", " R1"}).Draw(t, "fbRoute"))}
		d.Direction = opt(t, "fbDir", rapid.Uint32Range(0, 1))
		s.Trip = &d
	case tripMode == 8: // identifying without a trip id
		d := TripDesc{RouteID: P(rapid.SampledFrom([]string{"R1", "R5"}).Draw(t, "idRoute")), Direction: P(uint32(rapid.IntRange(0, 1).Draw(t, "idDir"))),
			StartTime: P(genHMS(t, "idTime")), StartDate: P(GenDate(t, "idDate", zone))}
		s.Trip = &d
	default: // empty or partial descriptor
		d := TripDesc{}
		if !noPartial {
			switch rapid.IntRange(0, 3).Draw(t, "partial") {
			case 0:
			case 1:
				d.RouteID = P("R2")
				d.StartTime = P(genHMS(t, "pTime"))
			case 2:
				d.RouteID = P("R6")
				d.Direction = P(uint32(1))
				d.StartDate = P(GenDate(t, "pDate", zone))
			default:
				d.Direction = P(uint32(0))
				d.StartTime = P(genHMS(t, "pTime2"))
			}
		} else if rapid.Bool().Draw(t, "emptyDescDir?") {
			d.Direction = P(uint32(rapid.IntRange(0, 1).Draw(t, "emptyDescDir")))
		}
		s.Trip = &d
	}
	return s
}

func GenAlert(t *rapid.T, pool []TripDesc, o GenOpts) *Alert {
	a := &Alert{}
	np := rapid.IntRange(0, 2).Draw(t, "nPeriods")
	for i := 0; i < np; i++ {
		a.Periods = append(a.Periods, Period{Start: opt(t, "pStart", gUTime64), End: opt(t, "pEnd", gUTime64)})
	}
	ns := rapid.IntRange(o.MinSelectors, o.MaxSelectors).Draw(t, "nSelectors")
	for i := 0; i < ns; i++ {
		a.Informed = append(a.Informed, GenSelector(t, pool, o.Zone, o.NoPartialDescriptors))
	}
	// the same trip_id on another service day, at another start time or in another direction is another trip: a selector
	// that repeats an earlier selector's trip_id with one of those changed (the runs of one trip on two days, say)
	for i := 0; i < len(a.Informed) && len(a.Informed) < ns+3; i++ {
		d := a.Informed[i].Trip
		if d == nil || d.TripID == nil || rapid.IntRange(0, 3).Draw(t, "tripVariant?") != 0 {
			continue
		}
		v := *d
		switch rapid.IntRange(0, 2).Draw(t, "tripVariantKind") {
		case 0:
			v.StartDate = P(GenDate(t, "variantDate", o.Zone))
		case 1:
			v.StartTime = P(genHMS(t, "variantTime"))
		default:
			v.Direction = P(uint32(rapid.IntRange(0, 1).Draw(t, "variantDir")))
		}
		a.Informed = append(a.Informed, Selector{Trip: &v})
	}
	a.Cause = opt(t, "cause", gCause)
	a.Effect = opt(t, "effect", gEffect)
	a.Header = genTranslations(t, "header")
	a.Desc = genTranslations(t, "desc")
	a.URL = genTranslations(t, "url")
	return a
}

func genVehiclePosBody(t *rapid.T, vp *VehiclePos) {
	if rapid.Bool().Draw(t, "pos?") {
		vp.Pos = &Position{Lat: gF32.Draw(t, "lat"), Lon: gF32.Draw(t, "lon"), Bearing: opt(t, "bearing", gF32), Odo: opt(t, "odo", gF64), Speed: opt(t, "speed", gF32)}
	}
	vp.CurSeq = opt(t, "curSeq", gU32)
	vp.StopID = opt(t, "vpStop", gStopID)
	vp.Status = opt(t, "status", gStatus)
	vp.Ts = opt(t, "vpTs", gUTime64)
	vp.Congestion = opt(t, "congestion", gCongest)
	vp.OccStatus = opt(t, "occStatus", gOccStat)
	vp.OccPct = opt(t, "occPct", gU32)
}

// MsgInfo describes the structure of a generated message for classification.
type MsgInfo struct {
	Trips, Vehicles, Idless, Alerts int
	AssocTU, AssocVP, AssocBoth     int // how associations are expressed
	AssocIdless, AssocNoIDField     int // with an id-less vehicle / a vehicle identified by label or plate only
	RefOnlyTrips                    int // trips without an entity of their own
	RefOnlyVehicles                 int
	MultiMention                    int // trips or vehicles mentioned by >= 2 entities
	Kinds                           int
	SizeClass                       int // 0, or the enlarged bound of this message
}

// GenMsg draws a conflict-free message: at most one own entity per trip and per vehicle, every
// mention of a trip/vehicle uses the same descriptor, each trip is associated with at most one
// vehicle and vice versa, vehicle descriptors inside trip updates are absent or non-empty.
func GenMsg(t *rapid.T, o GenOpts) (*Msg, MsgInfo) {
	var info MsgInfo
	m := &Msg{Timestamp: opt(t, "headerTs", gUTime64)}
	if !o.NoSizeClasses && rapid.IntRange(0, 24).Draw(t, "sizeClass") == 0 {
		// size class: counts beyond the thresholds code plausibly contains (16, 32, 64 entries; 256-byte buffers)
		n := rapid.SampledFrom([]int{17, 33, 70, 130, 260, 520}).Draw(t, "sizeN")
		switch rapid.IntRange(0, 3).Draw(t, "sizeWhat") {
		case 0:
			o.MaxTrips, o.MaxVehicles = n, n
		case 1:
			o.MaxSTU = n
		case 2:
			o.MaxSelectors = n
		default:
			o.MaxAlerts, o.MaxIdless = n, n/4
		}
		info.SizeClass = n
	}
	nT := rapid.IntRange(o.MinTrips, o.MaxTrips).Draw(t, "nTrips")
	nV := rapid.IntRange(o.MinVehicles, o.MaxVehicles).Draw(t, "nVehicles")
	nI := rapid.IntRange(o.MinIdless, max(o.MinIdless, o.MaxIdless)).Draw(t, "nIdless")
	trips := make([]TripDesc, nT)
	for i := range trips {
		trips[i] = GenTripDesc(t, i, o.Zone)
		if i > 0 && rapid.IntRange(0, 4).Draw(t, "shareTripID") == 0 {
			// distinct descriptors may share the trip_id string (and the start date) and differ elsewhere:
			// e.g. the runs of a frequency-based trip. They are still different trips.
			prev := trips[rapid.IntRange(0, i-1).Draw(t, "shareWith")]
			if prev.TripID != nil && rapid.IntRange(0, 3).Draw(t, "zeroTwin") == 0 {
				// a twin that differs from an earlier trip ONLY in that a field is absent on one side and has its zero value on
				// the other: no start time vs "00:00:00", no start date vs 19700101, no direction vs 0 - different identifiers
				tw := prev
				tw.TripID, tw.RouteID, tw.Direction, tw.StartTime, tw.StartDate, tw.SchedRel = cp(prev.TripID), cp(prev.RouteID), cp(prev.Direction), cp(prev.StartTime), cp(prev.StartDate), cp(prev.SchedRel)
				switch rapid.IntRange(0, 1).Draw(t, "zeroTwinField") {
				case 0:
					if prev.StartTime == nil {
						tw.StartTime = P("00:00:00")
					} else {
						tw.StartTime = nil
					}
				default:
					if prev.StartDate == nil {
						tw.StartDate = P("19700101")
					} else {
						tw.StartDate = nil
					}
				}
				trips[i] = tw
			} else if prev.TripID != nil {
				trips[i].TripID = cp(prev.TripID)
				if rapid.Bool().Draw(t, "shareStartDate") {
					trips[i].StartDate = cp(prev.StartDate)
				}
				if trips[i].StartTime == nil {
					trips[i].StartTime = P(fmt.Sprintf("%02d:%02d:00", 5+i, i))
				}
			}
		}
	}
	// distinctness of the parsed identifiers (the "neither id nor route" class could still coincide)
	seen := map[string]bool{}
	kept := trips[:0]
	for _, d := range trips {
		k := ExpectTripID(&d, LocOrUTC(o.Zone)).Key()
		if !seen[k] {
			seen[k] = true
			kept = append(kept, d)
		}
	}
	trips = kept
	nT = len(trips)
	vehs := make([]VehDesc, nV)
	for i := range vehs {
		vehs[i] = GenVehDesc(t, i)
	}
	// vehicle slots: 0..nV-1 have descriptors, nV..nV+nI-1 are id-less
	tripOfVeh := make([]int, nV+nI)
	for i := range tripOfVeh {
		tripOfVeh[i] = -1
	}
	vehOfTrip := make([]int, nT)
	for i := range vehOfTrip {
		vehOfTrip[i] = -1
	}
	if nT > 0 && nV+nI > 0 {
		perm := rapid.Permutation(seq(nV+nI)).Draw(t, "vehPerm")
		for ti := 0; ti < nT && ti < len(perm); ti++ {
			if rapid.IntRange(0, 3).Draw(t, "assoc?") != 0 {
				vehOfTrip[ti] = perm[ti]
				tripOfVeh[perm[ti]] = ti
			}
		}
	}
	tripHasTU := make([]bool, nT)
	vehHasVP := make([]bool, nV+nI)
	type ent struct {
		e Entity
	}
	var ents []Entity
	tuVeh := make([]bool, nT)     // trip update carries the vehicle descriptor
	vpTrip := make([]bool, nV+nI) // vehicle position carries the trip descriptor
	for ti := 0; ti < nT; ti++ {
		tripHasTU[ti] = rapid.IntRange(0, 3).Draw(t, "tripHasTU") != 0
	}
	for vi := 0; vi < nV+nI; vi++ {
		vehHasVP[vi] = vi >= nV || rapid.IntRange(0, 3).Draw(t, "vehHasVP") != 0
	}
	for ti := 0; ti < nT; ti++ {
		vi := vehOfTrip[ti]
		if vi < 0 {
			continue
		}
		mode := rapid.IntRange(0, 2).Draw(t, "assocMode") // 0 TU carries, 1 VP carries, 2 both
		if vi >= nV {
			mode = 1 // an id-less vehicle can only be linked from its own entity
		}
		if mode == 0 || mode == 2 {
			tripHasTU[ti] = true
			tuVeh[ti] = true
		}
		if mode == 1 || mode == 2 {
			vehHasVP[vi] = true
			vpTrip[vi] = true
		}
		switch {
		case vi >= nV:
			info.AssocIdless++
		case vehs[vi].ID == nil:
			info.AssocNoIDField++
		}
		switch mode {
		case 0:
			info.AssocTU++
		case 1:
			info.AssocVP++
		default:
			info.AssocBoth++
		}
	}
	for ti := 0; ti < nT; ti++ {
		if !tripHasTU[ti] {
			continue
		}
		tu := &TripUpdate{Trip: trips[ti], Timestamp: opt(t, "tuTs", gUTime64), Delay: opt(t, "tuDelay", gDelay)}
		if tuVeh[ti] {
			v := vehs[vehOfTrip[ti]]
			tu.Vehicle = &v
		}
		n := rapid.IntRange(o.MinSTU, o.MaxSTU).Draw(t, "nSTU")
		for i := 0; i < n; i++ {
			tu.STUs = append(tu.STUs, GenSTU(t))
		}
		ents = append(ents, Entity{TU: tu})
	}
	idlessMarker := uint64(1_500_000_000)
	for vi := 0; vi < nV+nI; vi++ {
		if !vehHasVP[vi] {
			continue
		}
		vp := &VehiclePos{}
		if vi < nV {
			v := vehs[vi]
			vp.Vehicle = &v
		} else if rapid.IntRange(0, 3).Draw(t, "emptyDescriptor") == 0 {
			// a descriptor that is present and identifies nothing (id given as the empty string): still a vehicle without identity
			vp.Vehicle = &VehDesc{ID: P("")}
			if rapid.Bool().Draw(t, "emptyLabelToo") {
				vp.Vehicle.Label = P("")
			}
		}
		if vpTrip[vi] {
			d := trips[tripOfVeh[vi]]
			vp.Trip = &d
		}
		genVehiclePosBody(t, vp)
		if vi >= nV { // unique marker so id-less vehicles can be told apart
			idlessMarker++
			vp.Ts = P(idlessMarker)
		}
		ents = append(ents, Entity{VP: vp})
	}
	// trips that nothing mentions yet can still be referenced by alerts when identifying
	var identifying []TripDesc
	for ti := 0; ti < nT; ti++ {
		if Identifying(ExpectTripID(&trips[ti], LocOrUTC(o.Zone))) {
			identifying = append(identifying, trips[ti])
		}
	}
	nA := rapid.IntRange(o.MinAlerts, o.MaxAlerts).Draw(t, "nAlerts")
	for i := 0; i < nA; i++ {
		ents = append(ents, Entity{AL: GenAlert(t, identifying, o)})
	}
	if len(ents) > 1 {
		perm := rapid.Permutation(seq(len(ents))).Draw(t, "entityOrder")
		shuffled := make([]Entity, len(ents))
		for i, p := range perm {
			shuffled[i] = ents[p]
		}
		ents = shuffled
	}
	for i := range ents {
		ents[i].ID = fmt.Sprintf("e%d", i)
		if i > 0 && ents[i].AL == nil && ents[i-1].AL == nil && rapid.IntRange(0, 7).Draw(t, "dupEntityID") == 0 {
			// the entity id says nothing about trips and vehicles: combined feeds reuse one id for a trip update
			// and the vehicle position of the same run
			ents[i].ID = ents[i-1].ID
		}
		if rapid.IntRange(0, 9).Draw(t, "alertIdKind") == 0 && ents[i].AL != nil {
			ents[i].ID = rapid.SampledFrom([]string{"", "lmm:alert:1", "a b", "é"}).Draw(t, "alertId") + fmt.Sprint(i)
		}
	}
	m.Entities = ents
	// info
	kinds := map[string]bool{}
	mentions := map[string]int{}
	for i := range ents {
		e := &ents[i]
		switch {
		case e.TU != nil:
			kinds["tu"] = true
			info.Trips++
			mentions["t"+ExpectTripID(&e.TU.Trip, LocOrUTC(o.Zone)).Key()]++
			if e.TU.Vehicle != nil {
				mentions["v"+js(vidOf(e.TU.Vehicle))]++
			}
		case e.VP != nil:
			kinds["vp"] = true
			info.Vehicles++
			if vidOf(e.VP.Vehicle) == nil {
				info.Idless++
			} else {
				mentions["v"+js(vidOf(e.VP.Vehicle))]++
			}
			if e.VP.Trip != nil {
				mentions["t"+ExpectTripID(e.VP.Trip, LocOrUTC(o.Zone)).Key()]++
			}
		case e.AL != nil:
			kinds["al"] = true
			info.Alerts++
			for si := range e.AL.Informed {
				if d := e.AL.Informed[si].Trip; d != nil {
					if id := ExpectTripID(d, LocOrUTC(o.Zone)); Identifying(id) {
						mentions["t"+id.Key()]++
					}
				}
			}
		}
	}
	for _, c := range mentions {
		if c >= 2 {
			info.MultiMention++
		}
	}
	for ti := 0; ti < nT; ti++ {
		if !tripHasTU[ti] && mentions["t"+ExpectTripID(&trips[ti], LocOrUTC(o.Zone)).Key()] > 0 {
			info.RefOnlyTrips++
		}
	}
	for vi := 0; vi < nV; vi++ {
		if !vehHasVP[vi] && mentions["v"+js(vidOf(&vehs[vi]))] > 0 {
			info.RefOnlyVehicles++
		}
	}
	info.Kinds = len(kinds)
	return m, info
}

func seq(n int) []int {
	s := make([]int, n)
	for i := range s {
		s[i] = i
	}
	return s
}
