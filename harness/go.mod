module verifharness

go 1.23

require (
	github.com/jamespfennell/gtfs v0.0.0
	google.golang.org/protobuf v1.27.1
	pgregory.net/rapid v1.3.0
)

require golang.org/x/text v0.9.0 // indirect

replace github.com/jamespfennell/gtfs => /repo
