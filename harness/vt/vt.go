// Package vt holds the per-run bookkeeping shared by every property check:
// counters for the evidence file, saving of failing cases as replay files, the
// known-findings list, and the wrapper that turns a library panic into a
// reported violation.
package vt

import (
	"encoding/json"
	"fmt"
	"hash/fnv"
	"os"
	"path/filepath"
	"runtime"
	"runtime/debug"
	"sort"
	"strconv"
	"strings"
	"sync"
	"time"
)

// Violation is the error a check returns when the property does not hold on a case.
// Sig names the class of the failure (used only to match KNOWN_FINDINGS.txt).
type Violation struct {
	Sig string
	Msg string
}

func (v *Violation) Error() string {
	if v.Sig == "" {
		return v.Msg
	}
	return "[" + v.Sig + "] " + v.Msg
}

// Failf builds a violation without a signature.
func Failf(format string, args ...any) error {
	return &Violation{Msg: fmt.Sprintf(format, args...)}
}

// FailSig builds a violation with a signature.
func FailSig(sig, format string, args ...any) error {
	return &Violation{Sig: sig, Msg: fmt.Sprintf(format, args...)}
}

// Safe runs f and converts a panic raised below it (i.e. in the library under test or in the
// oracle) into a violation carrying the stack.
func Safe(f func() error) (err error) {
	defer func() {
		if r := recover(); r != nil {
			err = &Violation{Sig: "panic", Msg: fmt.Sprintf("PANIC: %v\n%s", r, debug.Stack())}
		}
	}()
	return f()
}

// Recorder accumulates what one test function explored.
type Recorder struct {
	mu           sync.Mutex
	Property     string         `json:"property"`
	Test         string         `json:"test"`
	Rule         string         `json:"rule"`
	Exhaustive   bool           `json:"exhaustive"`
	Evaluations  int            `json:"evaluations"`
	Nontrivial   int            `json:"nontrivial_evaluations"`
	Classes      map[string]int `json:"classes"`
	Excluded     map[string]int `json:"excluded"`
	Known        map[string]int `json:"known"`
	Samples      []any          `json:"samples"`
	Notes        []string       `json:"notes"`
	Capped       bool           `json:"distinct_count_capped"`
	fps          map[uint64]struct{}
	Fingerprints []uint64 `json:"fingerprints"`
	maxSamples   int
}

// maxFingerprints bounds the memory of the distinct-case bookkeeping per process.
const maxFingerprints = 1000000

var (
	regMu    sync.Mutex
	registry []*Recorder
)

// NewRecorder registers a recorder; Flush writes all of them.
func NewRecorder(property, test, rule string) *Recorder {
	r := &Recorder{Property: property, Test: test, Rule: rule,
		Classes: map[string]int{}, Excluded: map[string]int{}, Known: map[string]int{},
		fps: map[uint64]struct{}{}, maxSamples: 6}
	regMu.Lock()
	registry = append(registry, r)
	regMu.Unlock()
	return r
}

// Eval counts one executed case and its class labels.
func (r *Recorder) Eval(classes ...string) {
	r.mu.Lock()
	r.Evaluations++
	for _, c := range classes {
		if c != "" {
			r.Classes[c]++
		}
	}
	r.mu.Unlock()
}

// Class counts labels without counting an evaluation.
func (r *Recorder) Class(classes ...string) {
	r.mu.Lock()
	for _, c := range classes {
		if c != "" {
			r.Classes[c]++
		}
	}
	r.mu.Unlock()
}

// Exclude counts a case (or part of one) steered away from by construction.
func (r *Recorder) Exclude(what string) {
	r.mu.Lock()
	r.Excluded[what]++
	r.mu.Unlock()
}

// Note adds a free-text remark to the evidence.
func (r *Recorder) Note(s string) {
	r.mu.Lock()
	if len(r.Notes) < 20 {
		r.Notes = append(r.Notes, s)
	}
	r.mu.Unlock()
}

// Fingerprint hashes the JSON form of v.
func Fingerprint(v any) uint64 {
	b, err := json.Marshal(v)
	if err != nil {
		b = []byte(fmt.Sprintf("%#v", v))
	}
	h := fnv.New64a()
	h.Write(b)
	return h.Sum64()
}

// NontrivialCase records a case that satisfies the property's non-triviality rule. fp
// identifies the case (distinct cases are counted by distinct fp); sample is what is written
// to the evidence file for the first few of them.
func (r *Recorder) NontrivialCase(fp uint64, sample func() any) {
	r.mu.Lock()
	defer r.mu.Unlock()
	r.Nontrivial++
	if _, ok := r.fps[fp]; ok {
		return
	}
	if len(r.fps) >= maxFingerprints {
		// beyond the cap distinct cases are no longer recorded: the reported count is a lower bound
		r.Capped = true
		return
	}
	r.fps[fp] = struct{}{}
	n := len(r.fps)
	// keep the 1st, 2nd, 4th, 8th ... distinct non-trivial case so samples are spread over the run
	if len(r.Samples) < r.maxSamples && n&(n-1) == 0 && sample != nil {
		r.Samples = append(r.Samples, boundSample(sample()))
	}
}

// Distinct returns the number of distinct non-trivial cases so far.
func (r *Recorder) Distinct() int {
	r.mu.Lock()
	defer r.mu.Unlock()
	return len(r.fps)
}

// Flush writes every recorder to $VERIF_STATS_DIR (if set).
func Flush() {
	dir := os.Getenv("VERIF_STATS_DIR")
	if dir == "" {
		return
	}
	os.MkdirAll(dir, 0o755)
	regMu.Lock()
	defer regMu.Unlock()
	for _, r := range registry {
		r.mu.Lock()
		if r.Evaluations > 0 {
			r.Fingerprints = r.Fingerprints[:0]
			for fp := range r.fps {
				r.Fingerprints = append(r.Fingerprints, fp)
			}
			sort.Slice(r.Fingerprints, func(i, j int) bool { return r.Fingerprints[i] < r.Fingerprints[j] })
			b, err := json.Marshal(r)
			if err == nil {
				name := fmt.Sprintf("%s.%s.%d.json", r.Property, r.Test, os.Getpid())
				os.WriteFile(filepath.Join(dir, name), b, 0o644)
			}
		}
		r.mu.Unlock()
	}
}

// ---------------------------------------------------------------------------------------------
// failing cases → replay files

// Envelope is the on-disk form of a replay case.
type Envelope struct {
	Property string          `json:"property"`
	Test     string          `json:"test"`
	Error    string          `json:"error,omitempty"`
	Sig      string          `json:"sig,omitempty"`
	Case     json.RawMessage `json:"case"`
}

// SaveFound writes the failing case to $VERIF_FOUND_DIR. The file name is stable per
// (property, test, seed) so the last write - rapid re-runs the minimal case last - wins.
func SaveFound(property, test string, c any, err error) string {
	dir := os.Getenv("VERIF_FOUND_DIR")
	if dir == "" {
		return ""
	}
	os.MkdirAll(dir, 0o755)
	raw, merr := json.Marshal(c)
	if merr != nil {
		raw, _ = json.Marshal(fmt.Sprintf("%#v", c))
	}
	env := Envelope{Property: property, Test: test, Case: raw}
	if err != nil {
		env.Error = err.Error()
		if len(env.Error) > 6000 {
			env.Error = env.Error[:6000] + "…"
		}
		if v, ok := err.(*Violation); ok {
			env.Sig = v.Sig
		}
	}
	b, _ := json.MarshalIndent(env, "", " ")
	tag := os.Getenv("VERIF_RUN_TAG")
	if tag == "" {
		tag = fmt.Sprint(os.Getpid())
	}
	path := filepath.Join(dir, fmt.Sprintf("%s-%s-%s.json", property, test, tag))
	os.WriteFile(path, b, 0o644)
	return path
}

// LoadEnvelope reads a replay file.
func LoadEnvelope(path string) (*Envelope, error) {
	b, err := os.ReadFile(path)
	if err != nil {
		return nil, err
	}
	var e Envelope
	if err := json.Unmarshal(b, &e); err != nil {
		return nil, err
	}
	return &e, nil
}

// ---------------------------------------------------------------------------------------------
// known findings

var (
	knownOnce sync.Once
	knownSigs map[string]map[string]bool
)

// IsKnown reports whether KNOWN_FINDINGS.txt lists "known: property=<p> sig=<sig>".
func IsKnown(property, sig string) bool {
	knownOnce.Do(func() {
		knownSigs = map[string]map[string]bool{}
		path := os.Getenv("VERIF_KNOWN_FINDINGS")
		if path == "" {
			return
		}
		b, err := os.ReadFile(path)
		if err != nil {
			return
		}
		for _, line := range strings.Split(string(b), "\n") {
			line = strings.TrimSpace(line)
			if !strings.HasPrefix(line, "known:") {
				continue
			}
			var p, s string
			for _, f := range strings.Fields(line) {
				if strings.HasPrefix(f, "property=") {
					p = strings.TrimPrefix(f, "property=")
				}
				if strings.HasPrefix(f, "sig=") {
					s = strings.TrimPrefix(f, "sig=")
				}
			}
			if p != "" && s != "" {
				if knownSigs[p] == nil {
					knownSigs[p] = map[string]bool{}
				}
				knownSigs[p][s] = true
			}
		}
	})
	if sig == "" {
		return false
	}
	return knownSigs[property][sig]
}

// ---------------------------------------------------------------------------------------------
// process environment

// Env is the process environment a case runs in. No result of the library may depend on it: the
// statements speak of bytes, options and histories only. Case types embed it; Run and the
// replayer apply it before the check.
type Env struct {
	// Local is the process time zone (time.Local) during the case: "" = the process's own, "NAME|SECONDS" = a fixed
	// zone of that name and offset (the name may coincide with a tz-database name or abbreviation), otherwise a
	// tz-database name.
	Local string `json:",omitempty"`
	// Procs is GOMAXPROCS during the case (0 = the process's own): code that splits work over "as many workers as there are
	// processors" must give the same result for every number of them.
	Procs int `json:",omitempty"`
}

var origLocal = time.Local
var origProcs = runtime.GOMAXPROCS(0)

// GetEnv makes every type embedding Env satisfy the interface Run looks for.
func (e Env) GetEnv() Env { return e }

// Apply installs the environment (and restores the original one for an empty Env).
func (e Env) Apply() {
	want := origProcs
	if e.Procs > 0 {
		want = e.Procs
	}
	if runtime.GOMAXPROCS(0) != want {
		runtime.GOMAXPROCS(want)
	}
	switch {
	case e.Local == "":
		time.Local = origLocal
	case strings.Contains(e.Local, "|"):
		i := strings.Index(e.Local, "|")
		off, _ := strconv.Atoi(e.Local[i+1:])
		time.Local = time.FixedZone(e.Local[:i], off)
	default:
		if loc, err := time.LoadLocation(e.Local); err == nil {
			time.Local = loc
		} else {
			time.Local = origLocal
		}
	}
}

// Locals are process time zones worth trying: names that coincide with configured zones or with abbreviations a
// lenient parser might accept, at offsets that differ from the real zone's.
var Locals = []string{"UTC|20700", "PST|-28800", "EDT|-14400", "BST|3600", "America/New_York|3600", "Europe/London|-7200", "CET|7200", "Local|-12600", "Asia/Kathmandu", "Australia/Lord_Howe", "|0", "d|3600"}

// ApplyEnvOf applies the environment of a case that embeds Env (and does nothing otherwise).
func ApplyEnvOf(c any) {
	if ec, ok := c.(interface{ GetEnv() Env }); ok {
		ec.GetEnv().Apply()
	}
}

// TB is the part of testing.TB / rapid.T the runner needs.
type TB interface {
	Fatalf(format string, args ...any)
}

// Run executes check on c, converting panics to violations; a violation that is not a listed
// known finding is saved as a replay file and fails the test.
func Run[C any](t TB, r *Recorder, c C, check func(C) error) {
	if msg := Try(r, c, check); msg != "" {
		t.Fatalf("%s", msg)
	}
}

// Try is Run without the failing: it returns the failure message ("" when the case passes). Tests over very large
// generated cases use it and fail their outer *testing.T after rapid.Check has returned - rapid's minimisation of a
// case recorded in millions of draws does not finish in useful time, and the saved case is the reproducible unit anyway.
func Try[C any](r *Recorder, c C, check func(C) error) string {
	if ec, ok := any(c).(interface{ GetEnv() Env }); ok {
		e := ec.GetEnv()
		e.Apply()
		if e.Local != "" {
			r.Class("env:process-time-zone-changed")
		}
		if e.Procs > 0 {
			r.Class("env:GOMAXPROCS-changed")
		}
	}
	SaveCurrent(r, c)
	err := Safe(func() error { return check(c) })
	if err == nil {
		return ""
	}
	if v, ok := err.(*Violation); ok && IsKnown(r.Property, v.Sig) {
		r.mu.Lock()
		r.Known[v.Sig]++
		r.mu.Unlock()
		return ""
	}
	path := SaveFound(r.Property, r.Test, c, err)
	msg := err.Error()
	if len(msg) > 4000 {
		msg = msg[:4000] + "…"
	}
	return fmt.Sprintf("VERIF-FAIL property=%s test=%s replay=%s\n%s", r.Property, r.Test, path, msg)
}

// SaveCurrent writes the case about to run (only when the driver asks for it: VERIF_SAVE_CURRENT) to $VERIF_CURRENT_CASE_DIR: when the process is ended by something no wrapper can
// catch (the runtime running out of memory or stack, a hang), the driver re-runs exactly this case alone to decide whether the
// case did it.
func SaveCurrent[C any](r *Recorder, c C) {
	dir := os.Getenv("VERIF_CURRENT_CASE_DIR")
	if dir == "" || os.Getenv("VERIF_SAVE_CURRENT") == "" {
		return
	}
	raw, err := json.Marshal(c)
	if err != nil {
		return
	}
	b, _ := json.Marshal(Envelope{Property: r.Property, Test: r.Test, Error: "the process ended while this case was running", Case: raw})
	os.WriteFile(filepath.Join(dir, r.Property+"-current-"+os.Getenv("VERIF_RUN_TEST")+"-"+os.Getenv("VERIF_RUN_TAG")+".json"), b, 0o644)
}

// maxSampleBytes bounds the JSON size of one sample in the evidence file; larger cases are represented by their size and the
// beginning of their JSON form (the evidence file is a record of what was covered, not an archive of inputs).
const maxSampleBytes = 12000

func boundSample(v any) any {
	b, err := json.Marshal(v)
	if err != nil || len(b) <= maxSampleBytes {
		return v
	}
	return map[string]any{"sample_too_large_to_list": true, "json_bytes": len(b), "json_prefix": string(b[:1500])}
}
