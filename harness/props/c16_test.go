package props

import (
	"fmt"
	"os"
	"strconv"
	"testing"

	"github.com/jamespfennell/gtfs"
	"github.com/jamespfennell/gtfs/extensions/nycttrips"
	"pgregory.net/rapid"

	"verifharness/rgen"
	"verifharness/vt"
)

// ---------------------------------------------------------------------------------------------
// C16: NYCT trips extension derives standard fields and is transparent otherwise.

type CaseC16 struct {
	vt.Env
	Zone string
	Msg  *rgen.Msg
	Opts rgen.NyctTripsOpts
}

var c16Rec = vt.NewRecorder("C16", "TestC16",
	"feeds mixing NYCT-extended and plain entities x the 4 option combinations: direction NORTH/SOUTH, assigned/unassigned with distinct train ids, NYCT-format trip ids over the whole origin-time range and non-matching ids, "+
		"stop time updates with actual/scheduled track in all 4 presence combinations, first-stop departure/arrival at feed timestamp -1 / 0 / +1 / missing, route M with stops from {M11-M14,M16,M18}x{N,S,other} and near-misses, optional vehicle position per NYCT trip. "+
		"Oracle: reference model at wire level (rgen.ApplyNyctTrips) followed by the plain reference transcription. Non-trivial = >=1 NYCT-extended and >=1 plain entity, or an M-route stop in the swap set")

var c16PlainRec = vt.NewRecorder("C16", "TestC16Plain",
	"plain messages (no NYCT data; C02's generator with route M and swap-set stop ids): with the fix disabled the extension parses exactly as no extension; with it enabled exactly as no extension on the harness-swapped message; "+
		"the library's swap applied to the harness-swapped message gives back the original (own inverse); stale filtering never drops a plain trip. Non-trivial = message has a route-M trip update with a stop in the swap set")

var c16OriginRec = vt.NewRecorder("C16", "TestC16Origin",
	"exhaustive: every origin time 000000-599999 as an NYCT-format trip id (600 feeds x 1000 trips); start time must be floor(N*60/100) seconds, direction and train id as given")

func init() {
	registerReplay("C16", "TestC16", checkC16)
	registerReplay("C16", "TestC16Plain", checkC16Plain)
}

func nyctOpts(o rgen.NyctTripsOpts, zone string) *gtfs.ParseRealtimeOptions {
	return &gtfs.ParseRealtimeOptions{Timezone: rgen.Loc(zone),
		Extension: nycttrips.Extension(nycttrips.ExtensionOpts{FilterStaleUnassignedTrips: o.FilterStale, PreserveMTrainPlatformsInBushwick: o.PreserveM})}
}

func checkC16(c CaseC16) error {
	if c.Msg == nil {
		return vt.Failf("malformed case")
	}
	r, err := gtfs.ParseRealtime(c.Msg.Marshal(), nyctOpts(c.Opts, c.Zone))
	if err != nil {
		return vt.Failf("ParseRealtime rejected a well-formed message: %v", err)
	}
	return compareC16(rgen.Normalize(r), c)
}

// compareC16 checks a parsed result against the reference model of the NYCT trips extension.
func compareC16(got rgen.NRealtime, c CaseC16) error {
	model, _ := rgen.ApplyNyctTrips(c.Msg, c.Opts)
	want := rgen.Expect(model, c.Zone, rgen.ExpectOpts{Track: rgen.NyctTrack})
	if err := rgen.Compare(got, want); err != nil {
		return vt.Failf("options %+v: %v", c.Opts, err)
	}
	return nil
}

func checkC16Plain(c CaseRT) error {
	if c.Msg == nil {
		return vt.Failf("malformed case")
	}
	plain := rgen.StripNyct(c.Msg)
	parse := func(m *rgen.Msg, o *rgen.NyctTripsOpts) (rgen.NRealtime, error) {
		opts := &gtfs.ParseRealtimeOptions{Timezone: rgen.Loc(c.Zone)}
		if o != nil {
			opts = nyctOpts(*o, c.Zone)
		}
		r, err := gtfs.ParseRealtime(m.Marshal(), opts)
		if err != nil {
			return rgen.NRealtime{}, vt.Failf("ParseRealtime rejected a well-formed message: %v", err)
		}
		return rgen.Normalize(r), nil
	}
	base, err := parse(plain, nil)
	if err != nil {
		return err
	}
	swapped := rgen.ApplyMSwap(plain)
	baseSwapped, err := parse(swapped, nil)
	if err != nil {
		return err
	}
	for _, filter := range []bool{false, true} {
		// fix disabled: exactly as without the extension
		g, err := parse(plain, &rgen.NyctTripsOpts{FilterStale: filter, PreserveM: true})
		if err != nil {
			return err
		}
		if rgen.CanonJS(g) != rgen.CanonJS(base) {
			return vt.FailSig("not-transparent", "plain message, M-train fix disabled, filter=%v: result differs from the parse without extension: %s", filter, rgen.FirstDiff(rgen.CanonJS(g), rgen.CanonJS(base)))
		}
		// fix enabled: as without the extension on the swapped message
		g, err = parse(plain, &rgen.NyctTripsOpts{FilterStale: filter})
		if err != nil {
			return err
		}
		if rgen.CanonJS(g) != rgen.CanonJS(baseSwapped) {
			return vt.FailSig("m-swap", "plain message, M-train fix enabled, filter=%v: result differs from the parse (without extension) of the message with N<->S swapped at M11-M14,M16,M18 on route M (with extension / swapped without): %s", filter, rgen.FirstDiff(rgen.CanonJS(g), rgen.CanonJS(baseSwapped)))
		}
		// own inverse
		g, err = parse(swapped, &rgen.NyctTripsOpts{FilterStale: filter})
		if err != nil {
			return err
		}
		if rgen.CanonJS(g) != rgen.CanonJS(base) {
			return vt.FailSig("m-swap-not-involution", "applying the M-train fix to the swapped message does not give back the original: %s", rgen.FirstDiff(rgen.CanonJS(g), rgen.CanonJS(base)))
		}
	}
	return nil
}

var nyctSuffixes = []string{"_A..N", "_A..S", "_1..N03R", "_GS.S01R", "_M..N20R", "_6X..S", "_L..N"}

func genNyctMsg(t *rapid.T, zone string) (*rgen.Msg, int, int, bool) {
	ts := rapid.SampledFrom([]uint64{1_700_000_000, 1_700_003_600, 0}).Draw(t, "feedTs")
	m := &rgen.Msg{}
	if ts != 0 {
		m.Timestamp = &ts
	}
	nN := rapid.IntRange(0, 5).Draw(t, "nNyct")
	swapSet := false
	var prevNyct []rgen.TripDesc
	for i := 0; i < nN; i++ {
		origin := rapid.OneOf(rapid.IntRange(0, 599999), rapid.SampledFrom([]int{0, 1, 2, 9, 10, 99, 100, 101, 5999, 6000, 143999, 144000, 599999})).Draw(t, "origin")
		id := fmt.Sprintf("%06d%s", origin, rapid.SampledFrom(nyctSuffixes).Draw(t, "suffix"))
		if rapid.IntRange(0, 5).Draw(t, "nonMatching") == 0 {
			id = rapid.SampledFrom([]string{"T", "trip", "12345", "A_B", "1234567"}).Draw(t, "plainID")
		}
		id = fmt.Sprintf("%s%d", id, i) // alnum tail keeps the NYCT format and makes ids distinct
		route := rapid.SampledFrom([]string{"A", "1", "M", "M", "GS", "m", "M "}).Draw(t, "route")
		d := rgen.TripDesc{TripID: &id, RouteID: &route, StartDate: rgen.P(rgen.GenDate(t, "startDate", zone))}
		if len(prevNyct) > 0 && rapid.IntRange(0, 4).Draw(t, "sameTripIDOtherDay") == 0 {
			// the same trip_id on another service day is another trip, with NYCT data of its own
			pv := prevNyct[rapid.IntRange(0, len(prevNyct)-1).Draw(t, "sameTripIDAs")]
			clash := false
			for _, o := range prevNyct { // no two trips of the message may end up with the same (trip_id, start date)
				if *o.TripID == *pv.TripID && *o.StartDate == *d.StartDate {
					clash = true
				}
			}
			if !clash {
				id = *pv.TripID
				route = *pv.RouteID
			}
		}
		prevNyct = append(prevNyct, d)
		if rapid.Bool().Draw(t, "wireStartTime") {
			d.StartTime = rgen.P(fmt.Sprintf("%02d:00:07", rapid.IntRange(0, 23).Draw(t, "wireH")))
		}
		if rapid.IntRange(0, 3).Draw(t, "wireDir") == 0 {
			d.Direction = rgen.P(uint32(rapid.IntRange(0, 1).Draw(t, "wireDirV")))
		}
		n := &rgen.NyctTrip{Direction: rgen.P(int32(rapid.SampledFrom([]int{1, 3}).Draw(t, "nyctDir")))}
		assigned := rapid.Bool().Draw(t, "assigned")
		if assigned || rapid.Bool().Draw(t, "isAssignedField") {
			n.IsAssigned = &assigned
		}
		if assigned || rapid.Bool().Draw(t, "trainIDPresent") {
			n.TrainID = rgen.P(fmt.Sprintf("0%s %04d+ TRAIN/%d", route, 1000+i, i))
			if rapid.IntRange(0, 5).Draw(t, "trainIDPadded") == 0 {
				// white space around the train id is part of it: the vehicle id is the train id, verbatim
				n.TrainID = rgen.P(fmt.Sprintf(rapid.SampledFrom([]string{" %s", "%s ", "%s\t", "\u00a0%s", " %s  "}).Draw(t, "trainIDPad"), *n.TrainID))
			}
		}
		d.Nyct = n
		tu := &rgen.TripUpdate{Trip: d}
		if ts != 0 && rapid.IntRange(0, 2).Draw(t, "tripTimestamp") == 0 {
			// a trip-level timestamp on either side of the header timestamp: staleness is judged against the header
			tu.Timestamp = rgen.P(uint64(int64(ts) + int64(rapid.SampledFrom([]int{-3600, -2, -1, 1, 2, 3600}).Draw(t, "tripTsOffset"))))
		}
		nS := rapid.IntRange(0, 4).Draw(t, "nSTU")
		for j := 0; j < nS; j++ {
			s := rgen.GenSTU(t)
			if j == 0 && ts != 0 {
				pick := func(l string) *int64 {
					switch rapid.IntRange(0, 3).Draw(t, l) {
					case 0:
						return nil
					case 1:
						return rgen.P(int64(ts) - 1)
					case 2:
						return rgen.P(int64(ts))
					default:
						return rgen.P(int64(ts) + 1)
					}
				}
				s.Arr, s.Dep = nil, nil
				if a := pick("firstArr"); a != nil {
					s.Arr = &rgen.Event{Time: a}
				}
				if dp := pick("firstDep"); dp != nil {
					s.Dep = &rgen.Event{Time: dp}
				}
				if rapid.IntRange(0, 5).Draw(t, "emptyEvent") == 0 {
					s.Dep = &rgen.Event{Delay: rgen.P(int32(5))} // event present, time missing
				}
			}
			// events with time 0 are indistinguishable from "missing" for the stale rule: keep them out
			for _, e := range []*rgen.Event{s.Arr, s.Dep} {
				if e != nil && e.Time != nil && *e.Time == 0 {
					*e.Time = 1
				}
			}
			switch rapid.IntRange(0, 3).Draw(t, "trackPresence") {
			case 0:
			case 1:
				s.Nyct = &rgen.NyctSTU{Scheduled: rgen.P("1")}
			case 2:
				s.Nyct = &rgen.NyctSTU{Actual: rgen.P("A2")}
			default:
				s.Nyct = &rgen.NyctSTU{Scheduled: rgen.P("1"), Actual: rgen.P(rapid.SampledFrom([]string{"2", ""}).Draw(t, "actualTrack"))}
			}
			if route == "M" && s.StopID != nil && rgen.SwapMStop(*s.StopID) != *s.StopID {
				swapSet = true
			}
			tu.STUs = append(tu.STUs, s)
		}
		m.Entities = append(m.Entities, rgen.Entity{TU: tu})
		if rapid.IntRange(0, 2).Draw(t, "nyctVP") == 0 {
			dd := d
			m.Entities = append(m.Entities, rgen.Entity{VP: &rgen.VehiclePos{Trip: &dd, StopID: rgen.P("S1"), Ts: rgen.P(uint64(1_600_000_000 + i))}})
		}
	}
	// plain entities
	o := rgen.DefaultGenOpts(zone)
	o.MaxTrips, o.MaxVehicles, o.MaxIdless, o.MaxAlerts, o.NoPartialDescriptors = 3, 2, 1, 1, true
	pm, _ := rgen.GenMsg(t, o)
	nPlain := len(pm.Entities)
	for _, e := range pm.Entities {
		if e.TU != nil && e.TU.Trip.RouteID != nil && *e.TU.Trip.RouteID == "M" {
			for _, s := range e.TU.STUs {
				if s.StopID != nil && rgen.SwapMStop(*s.StopID) != *s.StopID {
					swapSet = true
				}
			}
		}
		m.Entities = append(m.Entities, e)
	}
	if len(m.Entities) > 1 {
		perm := rapid.Permutation(seqInts(len(m.Entities))).Draw(t, "order")
		sh := make([]rgen.Entity, len(perm))
		for i, p := range perm {
			sh[i] = m.Entities[p]
		}
		m.Entities = sh
	}
	for i := range m.Entities {
		m.Entities[i].ID = fmt.Sprintf("e%d", i)
	}
	return m, nN, nPlain, swapSet
}

func TestC16(t *testing.T) { rapid.Check(t, propC16) }

func propC16(t *rapid.T) {
	zone := rapid.SampledFrom([]string{"", "America/New_York"}).Draw(t, "zone")
	m, nN, nPlain, swapSet := genNyctMsg(t, zone)
	c := CaseC16{Zone: zone, Msg: m, Opts: rgen.NyctTripsOpts{FilterStale: rapid.Bool().Draw(t, "filter"), PreserveM: rapid.Bool().Draw(t, "preserveM")}}
	c.Env = genEnv(t)
	_, dropped := rgen.ApplyNyctTrips(m, c.Opts)
	cls := []string{fmt.Sprintf("filter=%v,preserveM=%v", c.Opts.FilterStale, c.Opts.PreserveM)}
	if dropped > 0 {
		cls = append(cls, "stale-trip-dropped")
	}
	if swapSet {
		cls = append(cls, "m-swap-stop")
	}
	c16Rec.Eval(cls...)
	if (nN >= 1 && nPlain >= 1) || swapSet {
		c16Rec.NontrivialCase(vt.Fingerprint(c), func() any { return c })
	}
	vt.Run(t, c16Rec, c, checkC16)
}

func TestC16Plain(t *testing.T) {
	rapid.Check(t, func(t *rapid.T) {
		zone := rapid.SampledFrom([]string{"", "America/New_York"}).Draw(t, "zone")
		o := rgen.DefaultGenOpts(zone)
		o.NoPartialDescriptors = true
		m, _ := rgen.GenMsg(t, o)
		// make route M and swap-set stops common
		swapSet := false
		for i := range m.Entities {
			tu := m.Entities[i].TU
			if tu == nil {
				continue
			}
			if rapid.Bool().Draw(t, "forceM") {
				tu.Trip.RouteID = rgen.P("M")
				// the same trip may be mentioned elsewhere with the old descriptor: keep the message conflict-free
				// by giving this descriptor a trip id of its own
				tu.Trip.TripID = rgen.P(fmt.Sprintf("M-trip-%d", i))
				tu.Vehicle = nil
			}
			if tu.Trip.RouteID != nil && *tu.Trip.RouteID == "M" {
				for _, s := range tu.STUs {
					if s.StopID != nil && rgen.SwapMStop(*s.StopID) != *s.StopID {
						swapSet = true
					}
				}
			}
		}
		c := CaseRT{Zone: zone, Msg: m}
		cls := "no-swap-stop"
		if swapSet {
			cls = "m-swap-stop"
		}
		c16PlainRec.Eval(cls)
		if swapSet {
			c16PlainRec.NontrivialCase(vt.Fingerprint(c), func() any { return c })
		}
		vt.Run(t, c16PlainRec, c, checkC16Plain)
	})
}

// ---- trips sharing a train id (one vehicle claimed by several trips): the per-trip statements still hold

var c16SharedRec = vt.NewRecorder("C16", "TestC16Shared",
	"feeds of 2-5 NYCT trip updates (and some vehicle positions) in which several assigned trips carry the SAME train id - outside the conflict-free class of the reference transcription, so only the per-trip statements are checked directly: "+
		"every surviving NYCT trip has the direction of its descriptor, the start time of its trip id, its tracks, and, when assigned, a vehicle whose id is its train id. Non-trivial = >=2 assigned trips share a train id")

func init() { registerReplay("C16", "TestC16Shared", checkC16Shared) }

func checkC16Shared(c CaseC16) error {
	if c.Msg == nil {
		return vt.Failf("malformed case")
	}
	r, err := gtfs.ParseRealtime(c.Msg.Marshal(), nyctOpts(c.Opts, c.Zone))
	if err != nil {
		return vt.Failf("ParseRealtime rejected a well-formed message: %v", err)
	}
	model, _ := rgen.ApplyNyctTrips(c.Msg, c.Opts)
	byKey := map[string]*gtfs.Trip{}
	for i := range r.Trips {
		byKey[rgen.Normalize1Trip(&r.Trips[i]).ID.Key()] = &r.Trips[i]
	}
	loc := rgen.LocOrUTC(c.Zone)
	for ei := range model.Entities {
		tu := model.Entities[ei].TU
		if tu == nil {
			continue
		}
		want := rgen.ExpectTripID(&tu.Trip, loc)
		got := byKey[want.Key()]
		if got == nil {
			return vt.Failf("options %+v: trip %s (entity %s) is missing from the result", c.Opts, want.Key(), model.Entities[ei].ID)
		}
		if tu.Vehicle != nil && tu.Vehicle.ID != nil && *tu.Vehicle.ID != "" {
			if got.Vehicle == nil || got.Vehicle.GetID().ID != *tu.Vehicle.ID {
				have := "<nil>"
				if got.Vehicle != nil {
					have = got.Vehicle.GetID().ID
				}
				return vt.FailSig("assigned-trip-vehicle", "options %+v: assigned trip %q must be linked to a vehicle whose id is its train id %q; got %s", c.Opts, want.ID, *tu.Vehicle.ID, have)
			}
		}
		if len(got.StopTimeUpdates) != len(tu.STUs) {
			return vt.Failf("trip %q: %d stop time updates, want %d", want.ID, len(got.StopTimeUpdates), len(tu.STUs))
		}
		for si := range tu.STUs {
			wt := rgen.NyctTrack(&tu.STUs[si])
			gt := got.StopTimeUpdates[si].NyctTrack
			if (wt == nil) != (gt == nil) || (wt != nil && *wt != *gt) {
				return vt.Failf("trip %q stop time update %d: track %v, want %v", want.ID, si, gt, wt)
			}
		}
	}
	return nil
}

func TestC16Shared(t *testing.T) {
	rapid.Check(t, func(t *rapid.T) {
		zone := rapid.SampledFrom([]string{"", "America/New_York"}).Draw(t, "zone")
		m, _, _, _ := genNyctMsg(t, zone)
		// make several assigned trips share a train id
		var assigned []*rgen.TripUpdate
		for i := range m.Entities {
			if tu := m.Entities[i].TU; tu != nil && tu.Trip.Nyct != nil {
				if rapid.IntRange(0, 2).Draw(t, "forceAssigned") != 0 {
					tu.Trip.Nyct.IsAssigned = rgen.P(true)
					if tu.Trip.Nyct.TrainID == nil || *tu.Trip.Nyct.TrainID == "" {
						tu.Trip.Nyct.TrainID = rgen.P(fmt.Sprintf("train-%d", i)) // assigned trips carry a train id (empty ones are outside the domain)
					}
				}
				if tu.Trip.Nyct.IsAssigned != nil && *tu.Trip.Nyct.IsAssigned {
					assigned = append(assigned, tu)
				}
			}
		}
		shared := 0
		for i, tu := range assigned {
			if i > 0 && rapid.Bool().Draw(t, "shareTrain") {
				tu.Trip.Nyct.TrainID = assigned[0].Trip.Nyct.TrainID
				shared++
			}
		}
		// vehicle positions of NYCT trips must describe the same (now possibly changed) descriptor as their trip update
		for i := range m.Entities {
			if vp := m.Entities[i].VP; vp != nil && vp.Trip != nil && vp.Trip.Nyct != nil {
				for j := range m.Entities {
					if tu := m.Entities[j].TU; tu != nil && tu.Trip.TripID != nil && vp.Trip.TripID != nil && *tu.Trip.TripID == *vp.Trip.TripID {
						d := tu.Trip
						vp.Trip = &d
					}
				}
			}
		}
		c := CaseC16{Zone: zone, Msg: m, Opts: rgen.NyctTripsOpts{FilterStale: rapid.Bool().Draw(t, "filter"), PreserveM: rapid.Bool().Draw(t, "preserveM")}}
		c.Env = genEnv(t)
		c16SharedRec.Eval(fmt.Sprintf("shared-train-ids=%d", min(shared, 3)))
		if shared > 0 {
			c16SharedRec.NontrivialCase(vt.Fingerprint(c), func() any { return c })
		}
		vt.Run(t, c16SharedRec, c, checkC16Shared)
	})
}

func TestC16Origin(t *testing.T) {
	if os.Getenv("VERIF_PROP") == "" {
		t.Skip("driver only")
	}
	c16OriginRec.Exhaustive = true
	shard, _ := strconv.Atoi(os.Getenv("VERIF_SHARD"))
	shards, _ := strconv.Atoi(os.Getenv("VERIF_SHARDS"))
	if shards <= 0 {
		shards = 1
	}
	for batch := shard; batch < 600; batch += shards {
		m := &rgen.Msg{Timestamp: rgen.P(uint64(1_700_000_000))}
		for k := 0; k < 1000; k++ {
			n := batch*1000 + k
			id := fmt.Sprintf("%06d%s", n, nyctSuffixes[n%len(nyctSuffixes)])
			dir := int32(1 + 2*(n%2))
			assigned := n%3 == 0
			d := rgen.TripDesc{TripID: &id, RouteID: rgen.P("A"), StartDate: rgen.P("20231115"),
				Nyct: &rgen.NyctTrip{Direction: &dir, IsAssigned: &assigned, TrainID: rgen.P(fmt.Sprintf("train-%06d", n))}}
			m.Entities = append(m.Entities, rgen.Entity{ID: fmt.Sprint(n), TU: &rgen.TripUpdate{Trip: d}})
		}
		r, err := gtfs.ParseRealtime(m.Marshal(), nyctOpts(rgen.NyctTripsOpts{}, ""))
		if err != nil {
			t.Fatalf("parse: %v", err)
		}
		byID := map[string]*gtfs.Trip{}
		for i := range r.Trips {
			byID[r.Trips[i].ID.ID] = &r.Trips[i]
		}
		for k := 0; k < 1000; k++ {
			n := batch*1000 + k
			id := fmt.Sprintf("%06d%s", n, nyctSuffixes[n%len(nyctSuffixes)])
			c16OriginRec.Eval()
			c16OriginRec.NontrivialCase(uint64(n), func() any { return map[string]any{"trip_id": id, "expected_start_seconds": n * 60 / 100} })
			tr := byID[id]
			fail := func(msg string) {
				c := CaseC16{Zone: "", Msg: &rgen.Msg{Timestamp: m.Timestamp, Entities: []rgen.Entity{m.Entities[k]}}}
				path := vt.SaveFound("C16", "TestC16", c, vt.Failf("%s", msg))
				t.Fatalf("VERIF-FAIL property=C16 test=TestC16Origin replay=%s\n%s", path, msg)
			}
			if tr == nil {
				fail(fmt.Sprintf("trip %s missing from the result", id))
			}
			wantSec := int64(n * 60 / 100)
			if !tr.ID.HasStartTime || int64(tr.ID.StartTime) != wantSec*1e9 {
				fail(fmt.Sprintf("trip %s: start time %v (has=%v), want %d s (origin time %06d hundredths of a minute, truncated)", id, tr.ID.StartTime, tr.ID.HasStartTime, wantSec, n))
			}
			wantDir := gtfs.DirectionID_False
			if n%2 == 1 {
				wantDir = gtfs.DirectionID_True
			}
			if tr.ID.DirectionID != wantDir {
				fail(fmt.Sprintf("trip %s: direction %v, want %v", id, tr.ID.DirectionID, wantDir))
			}
			if n%3 == 0 {
				if tr.Vehicle == nil || tr.Vehicle.GetID().ID != fmt.Sprintf("train-%06d", n) {
					fail(fmt.Sprintf("trip %s: assigned, but vehicle is %+v", id, tr.Vehicle))
				}
			} else if tr.Vehicle != nil {
				fail(fmt.Sprintf("trip %s: unassigned, but has vehicle %+v", id, tr.Vehicle.GetID()))
			}
		}
	}
}

// nyctLarge builds an NYCT feed of n entities from a generated small one: its NYCT trip updates are repeated under distinct
// trip ids (the alphanumeric tail keeps the NYCT id format) and train ids.
func nyctLarge(t *rapid.T, zone string, n int) *rgen.Msg {
	base, _, _, _ := genNyctMsg(t, zone)
	var tus []rgen.Entity
	for _, e := range base.Entities {
		if e.TU != nil && e.TU.Trip.Nyct != nil && e.TU.Trip.TripID != nil {
			tus = append(tus, e)
		}
	}
	m := &rgen.Msg{Timestamp: base.Timestamp, Entities: append([]rgen.Entity(nil), base.Entities...)}
	if len(tus) == 0 { // the generated feed has no NYCT trip update: start from a fixed one
		tus = append(tus, rgen.Entity{TU: &rgen.TripUpdate{Trip: rgen.TripDesc{TripID: rgen.P("036000_M..N"), RouteID: rgen.P("M"), StartDate: rgen.P("20231114"),
			Nyct: &rgen.NyctTrip{Direction: rgen.P(int32(3)), IsAssigned: rgen.P(true), TrainID: rgen.P("0M 0600 MET/CTL")}},
			STUs: []rgen.STU{{StopID: rgen.P("M11N"), Arr: &rgen.Event{Time: rgen.P(int64(1_700_000_100))}, Nyct: &rgen.NyctSTU{Scheduled: rgen.P("1")}}}}})
	}
	for i := 0; len(m.Entities) < n; i++ {
		src := tus[i%len(tus)]
		tu := *src.TU
		d := tu.Trip
		d.TripID = rgen.P(fmt.Sprintf("%sx%d", *src.TU.Trip.TripID, i))
		ny := *d.Nyct
		if ny.TrainID != nil {
			ny.TrainID = rgen.P(fmt.Sprintf("%s/%d", *ny.TrainID, i))
		}
		d.Nyct = &ny
		tu.Trip = d
		m.Entities = append(m.Entities, rgen.Entity{ID: fmt.Sprintf("big%d", i), TU: &tu})
	}
	return m
}

// TestC16Large: NYCT feeds of 9001 and 70003 entities (beyond 65,536, counts that leave a remainder for any number of chunks).
func TestC16Large(t *testing.T) {
	for _, n := range []int{9001, 70003} {
		n := n
		t.Run(fmt.Sprint(n), func(outer *testing.T) {
			fail := ""
			defer func() {
				if fail != "" {
					outer.Fatalf("%s", fail)
				}
			}()
			rapid.Check(outer, func(t *rapid.T) {
				zone := rapid.SampledFrom([]string{"", "America/New_York"}).Draw(t, "zone")
				m := nyctLarge(t, zone, n)
				c := CaseC16{Zone: zone, Msg: m, Opts: rgen.NyctTripsOpts{FilterStale: rapid.Bool().Draw(t, "filter"), PreserveM: rapid.Bool().Draw(t, "preserveM")}}
				c.Env = genEnv(t)
				c16Rec.Eval(fmt.Sprintf("large:entities>=%d", n))
				if len(m.Entities) > 65536 {
					c16Rec.Class("large:reached:entities>65536")
				}
				c16Rec.NontrivialCase(vt.Fingerprint([]any{zone, n, c.Opts, len(m.Entities)}), func() any {
					return map[string]any{"zone": zone, "entities": len(m.Entities), "options": c.Opts}
				})
				if msg := vt.Try(c16Rec, c, checkC16); msg != "" && fail == "" {
					fail = msg
				}
			})
		})
	}
}
