package props

import (
	"testing"

	"pgregory.net/rapid"
)

// Coverage-guided variants of the generator-based properties (thorough tier): Go's native fuzzer mutates the bit stream rapid draws
// from, so coverage feedback steers the SAME generators and oracles towards code the random search reaches rarely.
// A failure is saved by vt.Run as an ordinary JSON replay case (and by the fuzzer as a corpus file).

func FuzzC01Rapid(f *testing.F) { f.Fuzz(rapid.MakeFuzz(propC01)) }
func FuzzC02Rapid(f *testing.F) { f.Fuzz(rapid.MakeFuzz(propC02)) }
func FuzzC09Rapid(f *testing.F) { f.Fuzz(rapid.MakeFuzz(propC09)) }
func FuzzC12Rapid(f *testing.F) { f.Fuzz(rapid.MakeFuzz(propC12)) }
func FuzzC14Rapid(f *testing.F) { f.Fuzz(rapid.MakeFuzz(propC14)) }
func FuzzC15Rapid(f *testing.F) { f.Fuzz(rapid.MakeFuzz(propC15)) }
func FuzzC16Rapid(f *testing.F) { f.Fuzz(rapid.MakeFuzz(propC16)) }
func FuzzC17Rapid(f *testing.F) { f.Fuzz(rapid.MakeFuzz(propC17)) }
func FuzzC08Rapid(f *testing.F) { f.Fuzz(rapid.MakeFuzz(propC08)) }
func FuzzC03Rapid(f *testing.F) { f.Fuzz(rapid.MakeFuzz(propC03)) }
func FuzzC11Rapid(f *testing.F) { f.Fuzz(rapid.MakeFuzz(propC11)) }
