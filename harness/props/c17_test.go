package props

import (
	"encoding/json"
	"fmt"
	"os"
	"sort"
	"testing"
	"time"

	"github.com/jamespfennell/gtfs"
	"github.com/jamespfennell/gtfs/extensions/nyctalerts"
	"pgregory.net/rapid"

	"verifharness/rgen"
	"verifharness/vt"
)

// ---------------------------------------------------------------------------------------------
// C17: NYCT alerts extension groups elevator alerts and maps Mercury data as documented.

type CaseC17 struct {
	vt.Env
	Zone string
	Msg  *rgen.Msg
	Opts rgen.NyctAlertsOpts
}

var c17Rec = vt.NewRecorder("C17", "TestC17",
	"alert feeds: 1-4 stations x {N,S,none} x 1-3 elevators with the members of a group adjacent, interleaved or reversed (generated entity order), mixed with non-elevator alerts with ids lmm:planned_work..., lmm:alert..., other, "+
		"each with 0-3 Mercury selectors over every priority 1-40 and non-table numbers, Mercury alert data present/absent, plain alerts and a few trip updates; x 3 policies x station-id flag x skip flag x metadata flag; a fresh extension per parse. "+
		"Oracle: reference grouping/mapping model (rgen.ExpectNyctAlerts); the priority tables are the harness's own transcription. Non-trivial = an elevator group with >=2 members or a prioritised alert")

var c17TableRec = vt.NewRecorder("C17", "TestC17Table",
	"exhaustive: every Mercury priority 0-45 x all 24 option combinations, as a single-selector alert with each id prefix")

func init() {
	registerReplay("C17", "TestC17", checkC17)
	registerReplay("C17", "TestC17Table", checkC17)
}

func nyctAlertsExt(o rgen.NyctAlertsOpts) nyctalerts.ExtensionOpts {
	p := nyctalerts.NoDeduplication
	switch o.Policy {
	case "STATION":
		p = nyctalerts.DeduplicateInStation
	case "COMPLEX":
		p = nyctalerts.DeduplicateInComplex
	case "":
		p = ""
	}
	return nyctalerts.ExtensionOpts{ElevatorAlertsDeduplicationPolicy: p, ElevatorAlertsInformUsingStationIDs: o.StationIDs,
		SkipTimetabledNoServiceAlerts: o.SkipTimetabled, AddNyctMetadata: o.Metadata}
}

func checkC17(c CaseC17) error {
	if c.Msg == nil {
		return vt.Failf("malformed case")
	}
	opts := &gtfs.ParseRealtimeOptions{Timezone: rgen.Loc(c.Zone), Extension: nyctalerts.Extension(nyctAlertsExt(c.Opts))}
	r, err := gtfs.ParseRealtime(c.Msg.Marshal(), opts)
	if err != nil {
		return vt.Failf("ParseRealtime rejected a well-formed message: %v", err)
	}
	got := rgen.Normalize(r)
	// where the statement leaves a choice (several informed entities with different priorities), the choice must at least be
	// the same every time the same bytes are parsed
	first := rgen.JS(got)
	for i := 0; i < 3 && len(c.Msg.Entities) <= 2000; i++ {
		r2, err := gtfs.ParseRealtime(c.Msg.Marshal(), &gtfs.ParseRealtimeOptions{Timezone: rgen.Loc(c.Zone), Extension: nyctalerts.Extension(nyctAlertsExt(c.Opts))})
		if err != nil {
			return vt.Failf("ParseRealtime rejected the message on a repeated parse: %v", err)
		}
		if js := rgen.JS(rgen.Normalize(r2)); js != first {
			return vt.FailSig("nondeterministic", "options %+v: parsing the same bytes again gives a different result: %s", c.Opts, rgen.FirstDiff(js, first))
		}
	}
	return compareC17(got, c)
}

// compareC17 checks a parsed result against the reference model of the NYCT alerts extension.
func compareC17(got rgen.NRealtime, c CaseC17) error {
	want, wantTrips := rgen.ExpectNyctAlerts(c.Msg, c.Opts, rgen.LocOrUTC(c.Zone))
	byID := map[string]rgen.NAlert{}
	for _, a := range got.Alerts {
		if _, dup := byID[a.ID]; dup {
			return vt.FailSig("duplicate-output-alert", "options %+v: two output alerts with id %q (one per group expected)", c.Opts, a.ID)
		}
		byID[a.ID] = a
	}
	for _, w := range want {
		g, ok := byID[w.Alert.ID]
		if !ok {
			return vt.Failf("options %+v: expected an output alert with id %q (from %v); got ids %v", c.Opts, w.Alert.ID, w.MemberIDs, alertIDs(got.Alerts))
		}
		delete(byID, w.Alert.ID)
		if g.Cause != w.Alert.Cause {
			return vt.Failf("options %+v: alert %q: cause %d, want %d", c.Opts, g.ID, g.Cause, w.Alert.Cause)
		}
		effOK := false
		for _, e := range w.EffectAny {
			if g.Effect == e {
				effOK = true
			}
		}
		if !effOK {
			return vt.Failf("options %+v: alert %q: effect %d, want one of %v", c.Opts, g.ID, g.Effect, w.EffectAny)
		}
		// description: base translations, then the metadata translation iff expected
		desc := g.Desc
		if w.Meta != nil {
			if len(desc) == 0 || desc[len(desc)-1].Lang != nyctalerts.MetadataLanguage {
				return vt.Failf("options %+v: alert %q carries Mercury data and metadata was requested, but no metadata translation was appended: %s", c.Opts, g.ID, rgen.JS(desc))
			}
			var md nyctalerts.Metadata
			if err := json.Unmarshal([]byte(desc[len(desc)-1].Text), &md); err != nil {
				return vt.Failf("alert %q: metadata does not decode: %v", g.ID, err)
			}
			hr := ""
			if w.Meta.HasHumanReadable && len(w.Meta.HumanReadable) > 0 {
				hr = w.Meta.HumanReadable[0].Text
			}
			dba := time.Duration(0)
			if w.Meta.DisplayBeforeActive != nil {
				dba = time.Duration(*w.Meta.DisplayBeforeActive) * time.Second
			}
			if md.CreatedAt.Unix() != int64(w.Meta.CreatedAt) || md.UpdatedAt.Unix() != int64(w.Meta.UpdatedAt) || md.DisplayBeforeActive != dba || md.HumanReadableActivePeriod != hr {
				return vt.Failf("alert %q: metadata %+v does not match the Mercury alert data %s", g.ID, md, rgen.JS(w.Meta))
			}
			desc = desc[:len(desc)-1]
		}
		for _, d := range desc {
			if d.Lang == nyctalerts.MetadataLanguage {
				return vt.Failf("options %+v: alert %q: a metadata translation was appended although none is due (flag=%v, Mercury data=%v)", c.Opts, g.ID, c.Opts.Metadata, w.Meta != nil)
			}
		}
		if rgen.JS(desc) != rgen.JS(w.Alert.Desc) && !(len(desc) == 0 && len(w.Alert.Desc) == 0) {
			return vt.Failf("alert %q: description %s, want %s", g.ID, rgen.JS(desc), rgen.JS(w.Alert.Desc))
		}
		if rgen.JS(g.Periods) != rgen.JS(w.Alert.Periods) || rgen.JS(g.Header) != rgen.JS(w.Alert.Header) || rgen.JS(g.URL) != rgen.JS(w.Alert.URL) {
			return vt.Failf("alert %q: periods/header/url differ:\n got  %s\n want %s", g.ID, rgen.JS(g), rgen.JS(w.Alert))
		}
		if w.Elevator {
			var stops []string
			for _, ie := range g.Informed {
				if ie.Stop == nil || ie.Agency != nil || ie.Route != nil || ie.Trip != nil || ie.RouteType != 10000 || ie.Dir != "unspecified" {
					return vt.Failf("options %+v: elevator alert %q: informed entity %s is not a pure stop selector", c.Opts, g.ID, rgen.JS(ie))
				}
				stops = append(stops, *ie.Stop)
			}
			ws := append([]string(nil), w.Stops...)
			sort.Strings(stops)
			sort.Strings(ws)
			if fmt.Sprint(stops) != fmt.Sprint(ws) {
				return vt.FailSig("elevator-stops", "options %+v: elevator alert %q (members %v): informed stops %v, want exactly %v", c.Opts, g.ID, w.MemberIDs, stops, ws)
			}
		} else {
			ga, wa := g, w.Alert
			ga.Cause, ga.Effect, ga.Desc, wa.Cause, wa.Effect, wa.Desc = 0, 0, nil, 0, 0, nil
			if err := rgen.CompareAlert(ga, wa); err != nil {
				return vt.Failf("options %+v: alert %q: %v", c.Opts, g.ID, err)
			}
		}
	}
	for id := range byID {
		return vt.Failf("options %+v: unexpected output alert %q (expected ids: %v)", c.Opts, id, expIDs(want))
	}
	keys := map[string]bool{}
	for _, t := range got.Trips {
		keys[t.ID.Key()] = true
	}
	for _, id := range wantTrips {
		if !keys[id.Key()] {
			return vt.Failf("trip %s named by a surviving alert is not in Trips", id.Key())
		}
	}
	return nil
}

func alertIDs(as []rgen.NAlert) []string {
	var out []string
	for _, a := range as {
		out = append(out, a.ID)
	}
	return out
}

func expIDs(es []rgen.NyctAlertExp) []string {
	var out []string
	for _, e := range es {
		out = append(out, e.Alert.ID)
	}
	return out
}

func genC17Opts(t *rapid.T) rgen.NyctAlertsOpts {
	return rgen.NyctAlertsOpts{Policy: rapid.SampledFrom([]string{"", "NONE", "STATION", "COMPLEX"}).Draw(t, "policy"), StationIDs: rapid.Bool().Draw(t, "stationIDs"),
		SkipTimetabled: rapid.Bool().Draw(t, "skip"), Metadata: rapid.Bool().Draw(t, "metadata")}
}

func genMercuryAlert(t *rapid.T) *rgen.MercuryAlert {
	m := &rgen.MercuryAlert{CreatedAt: rapid.Uint64Range(1_600_000_000, 1_800_000_000).Draw(t, "createdAt"), UpdatedAt: rapid.Uint64Range(1_600_000_000, 1_800_000_000).Draw(t, "updatedAt"),
		AlertType: rapid.SampledFrom([]string{"Delays", "Planned - Part Suspended", ""}).Draw(t, "alertType")}
	if rapid.Bool().Draw(t, "dba?") {
		m.DisplayBeforeActive = rgen.P(uint64(rapid.SampledFrom([]int{0, 3600, 86400}).Draw(t, "dba")))
	}
	if rapid.Bool().Draw(t, "hr?") {
		m.HasHumanReadable = true
		for i := rapid.IntRange(0, 2).Draw(t, "hrN"); i > 0; i-- {
			m.HumanReadable = append(m.HumanReadable, rgen.Translation{Text: rapid.SampledFrom([]string{"Weekends", "Jan 1 - Feb 2, 10pm to 5am", ""}).Draw(t, "hrText"), Lang: rgen.P("en")})
		}
	}
	return m
}

func genC17(t *rapid.T) (CaseC17, map[string]bool) {
	zone := rapid.SampledFrom([]string{"", "America/New_York"}).Draw(t, "zone")
	feats := map[string]bool{}
	m := &rgen.Msg{Timestamp: rgen.P(uint64(1_700_000_000))}
	var ents []rgen.Entity
	// elevator alerts
	stations := []string{"A27", "L03", "R1S", "127", "G0N", "abc"}
	elevators := []string{"123", "7", "12X", ""}
	nSt := rapid.IntRange(0, 4).Draw(t, "nStations")
	if rapid.IntRange(0, 4).Draw(t, "caseTwins") == 0 {
		// stations whose ids differ in letter case only are different stations
		stations = []string{"A27", "a27", "abc", "ABC", "Abc", "R1S"}
		elevators = []string{"123", "7"}
		nSt = max(nSt, 2)
		feats["stations-differing-in-case-only"] = true
	}
	if rapid.IntRange(0, 24).Draw(t, "sizeClass") == 0 {
		nSt = rapid.SampledFrom([]int{17, 33, 70, 130}).Draw(t, "manyStations")
		stations = nil
		for i := 0; i < nSt; i++ {
			stations = append(stations, fmt.Sprintf("%c%02d", 'A'+i%26, i%100))
		}
		elevators = []string{"1", "2", "3", "4", "5", "6", "7", "8", "9", "10", "11", "12", "13", "14", "15", "16", "17", "18", "19", "20"}
	}
	content := map[string]*rgen.Alert{} // per elevator id: members share periods and texts
	used := map[string]bool{}
	for i := 0; i < nSt; i++ {
		st := rapid.SampledFrom(stations).Draw(t, "station")
		nEl := rapid.IntRange(1, 3).Draw(t, "nElevators")
		for j := 0; j < nEl; j++ {
			el := rapid.SampledFrom(elevators).Draw(t, "elevator")
			for _, dir := range []string{"N", "S", ""} {
				if rapid.IntRange(0, 2).Draw(t, "member?") == 0 {
					continue
				}
				id := st + dir + "#EL" + el
				if used[id] {
					continue
				}
				used[id] = true
				base, ok := content[el]
				if !ok {
					base = &rgen.Alert{}
					if rapid.Bool().Draw(t, "elPeriod") {
						base.Periods = []rgen.Period{{Start: rgen.P(uint64(1_700_000_000 + j))}}
					}
					hdr := []rgen.Translation{{Text: "Elevator " + el + " out of service", Lang: rgen.P("en")}}
					base.Header = &hdr
					content[el] = base
				}
				a := *base
				// the members' own selectors are discarded by the extension: give them something to discard
				a.Informed = []rgen.Selector{{Stop: rgen.P(st + dir), Route: rgen.P("R1")}}
				if rapid.Bool().Draw(t, "elCauseSet") {
					a.Cause, a.Effect = rgen.P(int32(2)), rgen.P(int32(7))
				}
				ents = append(ents, rgen.Entity{ID: id, AL: &a})
			}
		}
	}
	// other alerts
	nO := rapid.IntRange(0, 4).Draw(t, "nOther")
	for i := 0; i < nO; i++ {
		o := rgen.DefaultGenOpts(zone)
		o.MaxSelectors, o.NoPartialDescriptors = 3, true
		a := rgen.GenAlert(t, nil, o)
		prefix := rapid.SampledFrom([]string{"lmm:planned_work:", "lmm:alert:", "lmm:other:", "x", "LMM:ALERT:"}).Draw(t, "idPrefix")
		for si := range a.Informed {
			if rapid.IntRange(0, 2).Draw(t, "mercurySel?") != 0 {
				pr := rapid.OneOf(rapid.IntRange(1, 40), rapid.SampledFrom([]int{0, 41, 99, -1, 2, 3, 4})).Draw(t, "priority")
				so := fmt.Sprintf(rapid.SampledFrom([]string{"%s:%d", "%s:%d", "%s:%d", "%s:%02d", "%s:%03d"}).Draw(t, "priorityShape"), rapid.SampledFrom([]string{"GTFS:MTASBWY", "x", "", "MTA:NYCT:G", "a:b:c:d", "MTASBWY:7:", ":"}).Draw(t, "sortPrefix"), pr)
				if rapid.IntRange(0, 9).Draw(t, "badSortOrder") == 0 {
					so = rapid.SampledFrom([]string{"nocolon", "a:b", "a:", ""}).Draw(t, "badSort")
				}
				a.Informed[si].SortOrder = &so
				feats["prioritised"] = true
			}
		}
		if rapid.Bool().Draw(t, "mercuryAlert?") {
			a.Mercury = genMercuryAlert(t)
			feats["mercury-alert-data"] = true
		}
		ents = append(ents, rgen.Entity{ID: fmt.Sprintf("%s%d", prefix, i), AL: a})
	}
	// a few plain trip updates
	for i := rapid.IntRange(0, 2).Draw(t, "nTU"); i > 0; i-- {
		ents = append(ents, rgen.Entity{ID: fmt.Sprintf("tu%d", i), TU: &rgen.TripUpdate{Trip: rgen.TripDesc{TripID: rgen.P(fmt.Sprintf("T%d", i))}}})
	}
	if len(ents) > 1 {
		perm := rapid.Permutation(seqInts(len(ents))).Draw(t, "order")
		sh := make([]rgen.Entity, len(perm))
		for i, p := range perm {
			sh[i] = ents[p]
		}
		ents = sh
	}
	m.Entities = ents
	c := CaseC17{Zone: zone, Msg: m, Opts: genC17Opts(t)}
	c.Env = genEnv(t)
	exp, _ := rgen.ExpectNyctAlerts(m, c.Opts, rgen.LocOrUTC(zone))
	for _, e := range exp {
		if e.Elevator && len(e.MemberIDs) >= 2 {
			feats["elevator-group>=2"] = true
		}
		if e.Elevator && len(e.Stops) >= 2 {
			feats["elevator-group>=2-stops"] = true
		}
	}
	return c, feats
}

func TestC17(t *testing.T) { rapid.Check(t, propC17) }

func propC17(t *rapid.T) {
	c, feats := genC17(t)
	var cls []string
	for k := range feats {
		cls = append(cls, k)
	}
	sort.Strings(cls)
	cls = append(cls, "policy="+c.Opts.Policy)
	c17Rec.Eval(cls...)
	if feats["elevator-group>=2"] || feats["prioritised"] {
		c17Rec.NontrivialCase(vt.Fingerprint(c), func() any { return c })
	}
	vt.Run(t, c17Rec, c, checkC17)
}

func TestC17Table(t *testing.T) {
	if os.Getenv("VERIF_PROP") == "" {
		t.Skip("driver only")
	}
	c17TableRec.Exhaustive = true
	for pr := 0; pr <= 45; pr++ {
		for _, policy := range []string{"", "STATION", "COMPLEX"} {
			for mask := 0; mask < 8; mask++ {
				for _, prefix := range []string{"lmm:planned_work:1", "lmm:alert:2", "other"} {
					so := fmt.Sprintf("GTFS:MTASBWY:%d", pr)
					a := &rgen.Alert{Informed: []rgen.Selector{{Route: rgen.P("A"), SortOrder: &so}}, Effect: rgen.P(int32(7)),
						Mercury: &rgen.MercuryAlert{CreatedAt: 1700000000, UpdatedAt: 1700000500, AlertType: "x"}}
					m := &rgen.Msg{Timestamp: rgen.P(uint64(1_700_000_000)), Entities: []rgen.Entity{{ID: prefix, AL: a}}}
					c := CaseC17{Msg: m, Opts: rgen.NyctAlertsOpts{Policy: policy, StationIDs: mask&1 != 0, SkipTimetabled: mask&2 != 0, Metadata: mask&4 != 0}}
					c17TableRec.Eval(fmt.Sprintf("priority=%d", pr))
					c17TableRec.NontrivialCase(vt.Fingerprint(c), func() any { return c })
					vt.Run(t, c17TableRec, c, checkC17)
				}
			}
		}
	}
}

// TestC17Large: one elevator whose alerts cover thousands to tens of thousands of stations (N, S and undirected platforms each),
// merged into one group: the informed stops must still be exactly the distinct platform or station ids. Every size runs in every tier.
func TestC17Large(t *testing.T) {
	type combo struct {
		n          int
		policy     string
		stationIDs bool
	}
	var combos []combo
	for _, n := range []int{9001, 20003, 40009} {
		combos = append(combos, combo{n, "COMPLEX", true}, combo{n, "COMPLEX", false}, combo{n, "STATION", true}, combo{n, "NONE", false})
	}
	for _, k := range combos {
		k := k
		n := k.n
		t.Run(fmt.Sprintf("%d-%s-%v", k.n, k.policy, k.stationIDs), func(outer *testing.T) {
			fail := ""
			defer func() {
				if fail != "" {
					outer.Fatalf("%s", fail)
				}
			}()
			rapid.Check(outer, func(t *rapid.T) {
				zone := rapid.SampledFrom([]string{"", "America/New_York"}).Draw(t, "zone")
				m := &rgen.Msg{Timestamp: rgen.P(uint64(1_700_000_000))}
				hdr := []rgen.Translation{{Text: "Elevator 728 out of service", Lang: rgen.P("en")}}
				dirs := rapid.SampledFrom([][]string{{"N", "S"}, {"S", "N", ""}, {"", "N"}}).Draw(t, "members")
				const digits = "0123456789ABCDEFGHIJKLMNOPQRSTUVWXYZ"
				for i := 0; i < n; i++ {
					st := string([]byte{digits[i/1296%36], digits[i/36%36], digits[i%36]})
					for _, dir := range dirs {
						a := &rgen.Alert{Header: &hdr, Informed: []rgen.Selector{{Stop: rgen.P(st + dir)}}}
						m.Entities = append(m.Entities, rgen.Entity{ID: st + dir + "#EL728", AL: a})
					}
				}
				c := CaseC17{Zone: zone, Msg: m, Opts: rgen.NyctAlertsOpts{Policy: k.policy, StationIDs: k.stationIDs, SkipTimetabled: rapid.Bool().Draw(t, "skip"), Metadata: rapid.Bool().Draw(t, "metadata")}}
				c.Env = genEnv(t)
				c17Rec.Eval(fmt.Sprintf("large:stations>=%d", n), "large:policy="+c.Opts.Policy)
				c17Rec.NontrivialCase(vt.Fingerprint([]any{zone, n, dirs, c.Opts}), func() any {
					return map[string]any{"stations": n, "members_per_station": dirs, "options": c.Opts}
				})
				if msg := vt.Try(c17Rec, c, checkC17); msg != "" && fail == "" {
					fail = msg
				}
			})
		})
	}
}
