package props

import (
	"fmt"
	"strings"
	"testing"

	"github.com/jamespfennell/gtfs"
	"pgregory.net/rapid"

	"verifharness/sgen"
	"verifharness/vt"
)

// ---------------------------------------------------------------------------------------------
// C01: static parse transcribes every valid row faithfully, whatever the presentation.

type CaseStatic struct {
	vt.Env
	// Primers are earlier ParseStatic calls in the same process on variants of the feed ("second-half": only the second half of
	// every file's rows, so ids keep their names but sit at other row indexes and references dangle; "reversed": every file's
	// rows reversed; "other-zone": the first agency in another time zone). The checked parse must not depend on them.
	Primers []string `json:",omitempty"`
	Feed    *sgen.Feed
	Pres    sgen.Presentation
	Inherit bool
}

var c01Rec = vt.NewRecorder("C01", "TestC01",
	"well-formed typed feeds (ten files; unique ids incl. spaces/commas/quotes/LF/non-ASCII/look-alikes; every optional enum and default-bearing cell written explicitly, both times given; "+
		"hours up to 999; high-precision and negative coordinates; shuffled stop rows; interleaved stop_times/shapes rows; 1-3 agencies over DST, fixed and unknown zones) x generated presentation "+
		"(column permutation, 0-3 unknown columns, BOM, CRLF, trailing newline, quoting mode, Store/Deflate, member order, extra members, optional empty files omitted). "+
		"Oracle: (a) reference Expect(feed) == Normalize(ParseStatic(render(feed,pres))) over the whole tree with pointers followed; (b) same feed under the canonical presentation gives the same normal form. "+
		"Non-trivial = >=2 rows in >=3 files, >=1 stop_times row reaching a trip, presentation differing from canonical in >=2 dimensions")

func init() { registerReplay("C01", "TestC01", checkC01) }

func parseStatic(ts sgen.Tables, p sgen.Presentation, inherit bool) (*gtfs.Static, error) {
	return gtfs.ParseStatic(sgen.Render(ts, p), gtfs.ParseStaticOptions{InheritWheelchairBoarding: inherit})
}

func checkC01(c CaseStatic) error {
	if c.Feed == nil {
		return vt.Failf("malformed case")
	}
	ts := c.Feed.Tables()
	runStaticPrimers(ts, c.Primers, c.Inherit)
	s, err := parseStatic(ts, c.Pres, c.Inherit)
	if err != nil {
		if sgen.HasZeroByteMember(ts, c.Pres) {
			return nil // an optional file present as a zero-byte member: rejecting the archive is acceptable, mis-parsing it is not
		}
		return vt.Failf("ParseStatic rejected a well-formed archive: %v", err)
	}
	want := sgen.Expect(c.Feed, sgen.Options{InheritWheelchairBoarding: c.Inherit}).SortedServices()
	got := sgen.ReconcileGaps(sgen.Normalize(s).SortedServices(), want)
	if d := sgen.Diff(got, want); d != "" {
		return vt.Failf("result differs from the reference transcription: %s", d)
	}
	s0, err := parseStatic(ts, sgen.Canonical(), c.Inherit)
	if err != nil {
		return vt.Failf("ParseStatic rejected the canonical presentation: %v", err)
	}
	if d := sgen.Diff(got, sgen.ReconcileGaps(sgen.Normalize(s0).SortedServices(), want)); d != "" {
		return vt.Failf("result depends on the presentation: %s", d)
	}
	return nil
}

// runStaticPrimers parses variants of ts and discards the results.
func runStaticPrimers(ts sgen.Tables, kinds []string, inherit bool) {
	for _, kind := range kinds {
		v := ts.Clone()
		for i := range v {
			rows := v[i].Rows
			switch kind {
			case "second-half":
				v[i].Rows = rows[len(rows)/2:]
			case "reversed":
				for a, b := 0, len(rows)-1; a < b; a, b = a+1, b-1 {
					rows[a], rows[b] = rows[b], rows[a]
				}
			case "other-zone":
				if v[i].Name == "agency.txt" && len(rows) > 0 {
					if c := v[i].Col("agency_timezone"); c >= 0 {
						if rows[0][c] == "Asia/Tokyo" {
							rows[0][c] = "America/Los_Angeles"
						} else {
							rows[0][c] = "Asia/Tokyo"
						}
					}
				}
			}
		}
		parseStatic(v, sgen.Canonical(), !inherit)
	}
}

func genStaticPrimers(t *rapid.T) []string {
	if rapid.IntRange(0, 4).Draw(t, "staticPrimers?") != 0 {
		return nil
	}
	return rapid.SliceOfN(rapid.SampledFrom([]string{"second-half", "reversed", "other-zone"}), 1, 3).Draw(t, "staticPrimers")
}

func staticClasses(f *sgen.Feed, info sgen.GenInfo, dims int) (classes []string, filesWith2 int) {
	counts := []int{len(f.Agencies), len(f.Routes), len(f.Stops), len(f.Transfers), len(f.Calendar), len(f.CalendarDates), len(f.Shapes), len(f.Trips), len(f.Frequencies), len(f.StopTimes)}
	for _, c := range counts {
		if c >= 2 {
			filesWith2++
		}
	}
	if info.MultiAgency {
		classes = append(classes, "multi-agency")
	}
	if info.InterleavedTrips {
		classes = append(classes, "interleaved-stop-times")
	}
	if info.MovedDates > 0 {
		classes = append(classes, "date-moved-off-gap-day")
	}
	if info.GapDates > 0 {
		classes = append(classes, "date-on-day-without-local-midnight")
	}
	for _, st := range f.StopTimes {
		if st.Arr.Sec >= 86400 || st.Dep.Sec >= 86400 {
			classes = append(classes, "time>=24h")
		}
		if st.Arr.Sec >= 360000 || st.Dep.Sec >= 360000 {
			classes = append(classes, "time>=100h")
		}
	}
	for _, s := range f.Stops {
		if s.Lon.Text != "" && s.Lon.V < 0 {
			classes = append(classes, "negative-longitude")
		}
	}
	if dims >= 2 {
		classes = append(classes, "presentation>=2-dims")
	}
	return dedupe(classes), filesWith2
}

func TestC01(t *testing.T) { rapid.Check(t, propC01) }

func propC01(t *rapid.T) {
	o := sgen.DefaultGenOpts()
	if tierThorough() && rapid.IntRange(0, 3).Draw(t, "large") == 0 {
		o = sgen.LargeGenOpts()
	}
	o.ExplicitDefaults = true
	o.GapDays = true
	f, info := sgen.GenFeed(t, o)
	inflated := 0
	if k := rapid.IntRange(0, 199).Draw(t, "inflate"); k == 0 || (tierThorough() && k < 8) {
		// size-dependent behaviour: a few hundred to a few thousand rows, and very long cells
		inflated = rapid.SampledFrom([]int{300, 1100, 4200, 8400, 17000}).Draw(t, "inflateTo")
		if !tierThorough() && inflated > 8400 {
			inflated = 8400
		}
		f = sgen.InflateFeed(f, inflated)
		if len(f.Stops) > 0 {
			f.Stops[len(f.Stops)-1].Desc = strings.Repeat("long description, with commas and \"quotes\" ", rapid.SampledFrom([]int{100, 1700}).Draw(t, "longCell"))
		}
	}
	p, dims := sgen.GenPresentation(t, f.Tables())
	c := CaseStatic{Feed: f, Pres: p, Inherit: rapid.Bool().Draw(t, "inherit")}
	c.Env = genEnv(t)
	if inflated == 0 {
		c.Primers = genStaticPrimers(t)
	}
	classes, files2 := staticClasses(f, info, dims)
	if inflated > 0 {
		classes = append(classes, fmt.Sprintf("inflated-to-%d-rows", inflated))
	}
	c01Rec.Eval(classes...)
	if info.MovedDates > 0 {
		c01Rec.Exclude("date without a unique local midnight moved to the next day")
	}
	if files2 >= 3 && info.ReachedStopTimes >= 1 && dims >= 2 {
		c01Rec.NontrivialCase(vt.Fingerprint(c), func() any { return c })
	}
	vt.Run(t, c01Rec, c, checkC01)
}

// TestC01Large: the reference transcription on feeds of 20000 and 70000 trips / stops / stop times, on one trip with 70000 stop
// times followed by another, and on a feed with a 1 MiB cell. Every kind runs in every tier.
func TestC01Large(t *testing.T) {
	for _, kind := range []string{"inflated-20000", "inflated-70000", "long-trip-70000", "cell-1MiB"} {
		kind := kind
		t.Run(kind, func(outer *testing.T) {
			fail := ""
			defer func() {
				if fail != "" {
					outer.Fatalf("%s", fail)
				}
			}()
			rapid.Check(outer, func(t *rapid.T) {
				o := sgen.DefaultGenOpts()
				o.ExplicitDefaults = true
				o.MinTrips, o.MinStopTimes = 2, 2
				f, _ := sgen.GenFeed(t, o)
				switch kind {
				case "inflated-20000":
					f = sgen.InflateFeed(f, 80000) // trips = n/4
				case "inflated-70000":
					f = sgen.InflateFeed(f, 280000)
				case "long-trip-70000":
					f = sgen.InflateFeed(f, len(f.StopTimes)+70000)
				case "cell-1MiB":
					if len(f.Stops) > 0 {
						f.Stops[len(f.Stops)/2].Desc = strings.Repeat("long description, with commas and \"quotes\" ", 25000)
					}
				}
				c := CaseStatic{Feed: f, Pres: sgen.Canonical(), Inherit: rapid.Bool().Draw(t, "inherit")}
				c.Env = genEnv(t)
				c01Rec.Eval("large:" + kind)
				for _, th := range []int{65536, 16384} {
					if len(f.Trips) > th {
						c01Rec.Class(fmt.Sprintf("large:reached:trips>%d", th))
						break
					}
				}
				for _, th := range []int{65536, 16384} {
					if len(f.StopTimes) > th {
						c01Rec.Class(fmt.Sprintf("large:reached:stop-times>%d", th))
						break
					}
				}
				c01Rec.NontrivialCase(vt.Fingerprint([]any{kind, len(f.Trips), len(f.Stops), len(f.StopTimes), c.Inherit}), func() any {
					return map[string]any{"kind": kind, "trips": len(f.Trips), "stops": len(f.Stops), "stop_times": len(f.StopTimes)}
				})
				if msg := vt.Try(c01Rec, c, checkC01); msg != "" && fail == "" {
					fail = msg
				}
			})
		})
	}
}
