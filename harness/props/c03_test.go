package props

import (
	"fmt"
	"strconv"
	"testing"
	"time"
	"unsafe"

	"github.com/jamespfennell/gtfs"
	"pgregory.net/rapid"

	"verifharness/sgen"
	"verifharness/vt"
)

// ---------------------------------------------------------------------------------------------
// C03: the static result is referentially closed and the stop hierarchy is a forest.

type CaseTables struct {
	vt.Env
	Follow  bool `json:",omitempty"` // also parse and check the cut-down follow-up feed (see followUp)
	Tables  sgen.Tables
	Inherit bool
	Labels  []string `json:",omitempty"`
}

var c03Rec = vt.NewRecorder("C03", "TestC03",
	"well-formed feeds after 0-6 hostile edits of the tables: references made unknown or blank, parent_station pointing at itself / closing cycles of length 2-4 / at its own child, duplicated ids whose copies point elsewhere, "+
		"deleted, moved and blanked rows, hostile values in any cell; in the thorough tier also feeds inflated to >1000 rows so result slices are re-allocated while being built. "+
		"Oracle (predicates on the returned *Static only): every required reference non-nil, every reference the address of an element of the corresponding returned slice, that element's id the one named by a row carrying the referrer's own id "+
		"(stops matched positionally), parent walk from every stop ends within len(Stops) steps and Root() returns the walk's root. Archives ParseStatic rejects are skipped (counted). "+
		"Non-trivial = the input contains >=1 malformed reference, cycle or duplicate and the result has >=3 bound references")

func init() { registerReplay("C03", "TestC03", checkC03) }

func cell(tb *sgen.Table, row []string, col string) (string, bool) {
	c := tb.Col(col)
	if c < 0 {
		return "", false
	}
	return row[c], true
}

// stopRoots returns the root of every stop's parent chain, computed with memoisation (linear also for chains tens of thousands
// deep), or a violation when a chain leaves Stops or does not end (a cycle: Root() would never return).
func stopRoots(s *gtfs.Static) ([]*gtfs.Stop, error) {
	roots := make([]*gtfs.Stop, len(s.Stops))
	if len(s.Stops) == 0 {
		return roots, nil
	}
	base := &s.Stops[0]
	idx := func(p *gtfs.Stop) int {
		return int((uintptr(unsafe.Pointer(p)) - uintptr(unsafe.Pointer(base))) / unsafe.Sizeof(*base))
	}
	var path []int
	for i := range s.Stops {
		if roots[i] != nil {
			continue
		}
		path = path[:0]
		cur := &s.Stops[i]
		for {
			ci := idx(cur)
			if ci < 0 || ci >= len(s.Stops) || &s.Stops[ci] != cur {
				return nil, vt.FailSig("reference-not-into-result", "a Parent pointer reachable from Stops[%d] does not point into Stops", i)
			}
			if roots[ci] != nil {
				cur = roots[ci]
				break
			}
			path = append(path, ci)
			if len(path) > len(s.Stops) {
				return nil, vt.FailSig("stop-parent-cycle", "Stops[%d] (%q): following Parent does not reach a root within %d steps - the hierarchy has a cycle, Root() would never return", i, s.Stops[i].Id, len(s.Stops))
			}
			if cur.Parent == nil {
				break
			}
			cur = cur.Parent
		}
		for _, pi := range path {
			roots[pi] = cur
		}
	}
	return roots, nil
}

// checkClosure evaluates the predicates; bound is the number of non-nil references seen.
func checkClosure(ts sgen.Tables, s *gtfs.Static) (bound int, err error) {
	n := sgen.Normalize(s)
	if len(n.Defects) > 0 {
		return 0, vt.FailSig("reference-not-into-result", "%s", n.Defects[0])
	}
	// stops: positional
	if tb := ts.Get("stops.txt"); tb != nil && tb.Col("stop_id") >= 0 {
		var accepted [][]string
		for _, r := range tb.Rows {
			if id, _ := cell(tb, r, "stop_id"); id != "" {
				accepted = append(accepted, r)
			}
		}
		if len(accepted) != len(s.Stops) {
			// the parser accepts a different set of rows than "has a stop_id" (which no listed property forbids): match every stop
			// against the rows carrying its id instead of by position
			byID := map[string][][]string{}
			for _, r := range accepted {
				id, _ := cell(tb, r, "stop_id")
				byID[id] = append(byID[id], r)
			}
			for i := range s.Stops {
				rows := byID[s.Stops[i].Id]
				if len(rows) == 0 {
					return 0, vt.Failf("Stops[%d] has id %q, which no stops.txt row carries", i, s.Stops[i].Id)
				}
				if p := s.Stops[i].Parent; p != nil {
					bound++
					ok := false
					for _, r := range rows {
						if want, _ := cell(tb, r, "parent_station"); want == p.Id {
							ok = true
						}
					}
					if !ok {
						return 0, vt.FailSig("stop-parent-wrong-row", "Stops[%d] (%q): Parent is %q, which no stops.txt row with that stop_id names", i, s.Stops[i].Id, p.Id)
					}
				}
			}
			accepted = nil
		}
		for i, r := range accepted {
			id, _ := cell(tb, r, "stop_id")
			if s.Stops[i].Id != id {
				return 0, vt.Failf("Stops[%d].Id = %q, row %d with a stop_id has %q", i, s.Stops[i].Id, i, id)
			}
			if p := s.Stops[i].Parent; p != nil {
				bound++
				want, _ := cell(tb, r, "parent_station")
				if p.Id != want {
					return 0, vt.FailSig("stop-parent-wrong-row", "Stops[%d] (%q): Parent is %q but its row names parent_station %q", i, id, p.Id, want)
				}
			}
		}
	}
	// forest: the root of every stop
	roots, ferr := stopRoots(s)
	if ferr != nil {
		return 0, ferr
	}
	// every chain is acyclic (bounded walk above), so Root() terminates; the watchdog is a backstop only
	type rootRes struct {
		i int
		r *gtfs.Stop
	}
	done := make(chan rootRes, 1)
	go func() {
		step := 1
		if len(s.Stops) > 3000 {
			step = len(s.Stops) / 1500 // Root() itself walks the whole chain: sample the stops of very large hierarchies
		}
		for i := 0; i < len(s.Stops); i += step {
			if r := s.Stops[i].Root(); r != roots[i] {
				done <- rootRes{i, r}
				return
			}
		}
		done <- rootRes{-1, nil}
	}()
	select {
	case rr := <-done:
		if rr.i >= 0 {
			return 0, vt.Failf("Stops[%d].Root() = %q, the parent walk ends at %q", rr.i, rr.r.Id, roots[rr.i].Id)
		}
	case <-time.After(60 * time.Second):
		return 0, vt.FailSig("root-hangs", "Root() did not return within 60s on an acyclic hierarchy of %d stops", len(s.Stops))
	}
	// routes
	if tb := ts.Get("routes.txt"); tb != nil {
		routeRows := map[string][][]string{}
		for _, row := range tb.Rows {
			id, _ := cell(tb, row, "route_id")
			routeRows[id] = append(routeRows[id], row)
		}
		for i := range s.Routes {
			r := &s.Routes[i]
			bound++
			ok := false
			for _, row := range routeRows[r.Id] {
				aid, _ := cell(tb, row, "agency_id")
				if (aid != "" && aid == r.Agency.Id) || (aid == "" && len(s.Agencies) == 1 && r.Agency == &s.Agencies[0]) {
					ok = true
				}
			}
			if !ok {
				return 0, vt.Failf("Routes[%d] (%q) is bound to agency %q, which no routes.txt row with that route_id names", i, r.Id, r.Agency.Id)
			}
		}
	}
	// transfers
	if tb := ts.Get("transfers.txt"); tb != nil {
		pairs := map[[2]string]bool{}
		for _, row := range tb.Rows {
			f, _ := cell(tb, row, "from_stop_id")
			t, _ := cell(tb, row, "to_stop_id")
			pairs[[2]string{f, t}] = true
		}
		for i := range s.Transfers {
			x := &s.Transfers[i]
			bound += 2
			ok := pairs[[2]string{x.From.Id, x.To.Id}]
			if !ok {
				return 0, vt.Failf("Transfers[%d] links %q -> %q, which no transfers.txt row names", i, x.From.Id, x.To.Id)
			}
		}
	} else if len(s.Transfers) > 0 {
		return 0, vt.Failf("%d transfers without a transfers.txt", len(s.Transfers))
	}
	// trips and stop times
	tripsTb, stTb := ts.Get("trips.txt"), ts.Get("stop_times.txt")
	tripRows := map[string][][]string{}
	if tripsTb != nil {
		for _, row := range tripsTb.Rows {
			id, _ := cell(tripsTb, row, "trip_id")
			tripRows[id] = append(tripRows[id], row)
		}
	}
	type stKey struct {
		trip, stop string
		seq        int
	}
	stRows := map[stKey]bool{}
	if stTb != nil {
		for _, row := range stTb.Rows {
			tid, _ := cell(stTb, row, "trip_id")
			sid, _ := cell(stTb, row, "stop_id")
			sq, _ := cell(stTb, row, "stop_sequence")
			if v, err := strconv.Atoi(sq); err == nil {
				stRows[stKey{tid, sid, v}] = true
			}
		}
	}
	for i := range s.Trips {
		t := &s.Trips[i]
		bound += 2
		ok := false
		if tripsTb != nil {
			for _, row := range tripRows[t.ID] {
				id := t.ID
				rid, _ := cell(tripsTb, row, "route_id")
				sid, _ := cell(tripsTb, row, "service_id")
				shid, _ := cell(tripsTb, row, "shape_id")
				if id == t.ID && rid == t.Route.Id && sid == t.Service.Id && (t.Shape == nil || shid == t.Shape.ID) {
					ok = true
				}
			}
		}
		if !ok {
			shape := "<nil>"
			if t.Shape != nil {
				shape = t.Shape.ID
			}
			return 0, vt.Failf("Trips[%d] (%q) is bound to route %q, service %q, shape %s, which no trips.txt row with that trip_id names", i, t.ID, t.Route.Id, t.Service.Id, shape)
		}
		if t.Shape != nil {
			bound++
		}
		for j := range t.StopTimes {
			st := &t.StopTimes[j]
			bound++
			ok := stRows[stKey{t.ID, st.Stop.Id, st.StopSequence}]
			if !ok {
				return 0, vt.Failf("Trips[%d] (%q).StopTimes[%d] (sequence %d) is bound to stop %q, which no stop_times.txt row of that trip and sequence names", i, t.ID, j, st.StopSequence, st.Stop.Id)
			}
		}
	}
	return bound, nil
}

func checkC03(c CaseTables) error {
	s, err := parseStatic(c.Tables, sgen.Canonical(), c.Inherit)
	if err != nil {
		return nil // not an archive ParseStatic accepts
	}
	_, err = checkClosure(c.Tables, s)
	if err != nil {
		if v, ok := err.(*vt.Violation); ok {
			v.Msg = fmt.Sprintf("%s (edits: %v)", v.Msg, c.Labels)
		}
		return err
	}
	if c.Follow {
		// a cut-down feed parsed right after it, whose references name ids only the feed before carries: they dangle
		ft := followUp(c.Tables)
		if fs, ferr := parseStatic(ft, sgen.Canonical(), c.Inherit); ferr == nil {
			if _, err = checkClosure(ft, fs); err != nil {
				if v, ok := err.(*vt.Violation); ok {
					v.Msg = fmt.Sprintf("in the cut-down feed parsed after the first one: %s (edits: %v)", v.Msg, c.Labels)
				}
			}
		}
	}
	return err
}

func TestC03(t *testing.T) { rapid.Check(t, propC03) }

func propC03(t *rapid.T) {
	o := sgen.DefaultGenOpts()
	o.MinTrips, o.MinStopTimes = 1, 1
	o.ExplicitDefaults = rapid.Bool().Draw(t, "explicit")
	f, _ := sgen.GenFeed(t, o)
	ts := f.Tables()
	inflate := rapid.IntRange(0, 199).Draw(t, "inflate") < map[bool]int{true: 6, false: 1}[tierThorough()]
	if inflate {
		if rapid.Bool().Draw(t, "longGroup") {
			// one trip with thousands of stop times (one shape with thousands of points ...) followed by a fresh one
			ts = sgen.LongGroup(ts, rapid.SampledFrom([]int{300, 1030, 4100, 8200}).Draw(t, "longGroupN"))
		} else {
			ts = sgen.Inflate(ts, rapid.SampledFrom([]int{300, 1100, 2100, 4200}).Draw(t, "inflateTo"))
		}
	}
	k := rapid.IntRange(0, 6).Draw(t, "nEdits")
	mts, labels := sgen.Mutate(t, ts, k, false)
	c := CaseTables{Tables: mts, Inherit: rapid.Bool().Draw(t, "inherit"), Labels: labels}
	c.Env = genEnv(t)
	c.Follow = rapid.IntRange(0, 3).Draw(t, "followUp") == 0
	cls := []string{}
	hostile := false
	for _, l := range labels {
		short := l
		for i := range l {
			if l[i] == ':' {
				short = l[:i]
				break
			}
		}
		cls = append(cls, short)
		switch short {
		case "ref-unknown", "ref-blank", "parent-self", "parent-of-own-child", "duplicate-id", "delete-row", "parent-cycle-2", "parent-cycle-3", "parent-cycle-4":
			hostile = true
		}
	}
	if inflate {
		cls = append(cls, "inflated")
	}
	s, err := parseStatic(mts, sgen.Canonical(), c.Inherit)
	if err != nil {
		c03Rec.Eval(append(cls, "rejected-by-parser")...)
		c03Rec.Exclude("archive rejected by ParseStatic")
		return
	}
	c03Rec.Eval(dedupe(cls)...)
	bound, _ := vtSafeBound(mts, s)
	if hostile && bound >= 3 {
		c03Rec.NontrivialCase(vt.Fingerprint(c), func() any {
			return map[string]any{"edits": labels, "stops.txt": mts.Get("stops.txt"), "trips.txt": mts.Get("trips.txt")}
		})
	}
	vt.Run(t, c03Rec, c, checkC03)
}

func vtSafeBound(ts sgen.Tables, s *gtfs.Static) (bound int, err error) {
	defer func() {
		if r := recover(); r != nil {
			err = fmt.Errorf("%v", r)
		}
	}()
	return checkClosure(ts, s)
}

// TestC03Large: closure and the forest at sizes beyond 16-bit indexes and any depth bound: archives inflated to 70000 rows with
// hostile edits, parent chains tens of thousands deep, and parent CYCLES through 9000 ... 70000 stops (which the parser must
// break somewhere). Every (kind, size) combination runs in every tier.
func TestC03Large(t *testing.T) {
	type cfg struct {
		kind string
		n    int
	}
	for _, k := range []cfg{{"inflated", 70000}, {"cycle", 9000}, {"cycle", 33000}, {"cycle", 70001}, {"chain", 70001}} {
		k := k
		t.Run(fmt.Sprintf("%s-%d", k.kind, k.n), func(outer *testing.T) {
			fail := ""
			defer func() {
				if fail != "" {
					outer.Fatalf("%s", fail)
				}
			}()
			rapid.Check(outer, func(t *rapid.T) {
				o := sgen.DefaultGenOpts()
				o.MinTrips, o.MinStopTimes = 1, 1
				f, _ := sgen.GenFeed(t, o)
				ts := f.Tables()
				var labels []string
				switch k.kind {
				case "inflated":
					ts = sgen.Inflate(ts, k.n)
					ts, labels = sgen.Mutate(t, ts, rapid.IntRange(1, 6).Draw(t, "nEdits"), false)
				default:
					st := ts.Get("stops.txt")
					ic, pc := st.Col("stop_id"), st.Col("parent_station")
					tmpl := append([]string(nil), st.Rows[0]...)
					if lt := st.Col("location_type"); lt >= 0 {
						tmpl[lt] = ""
					}
					first := len(st.Rows)
					for i := 0; i < k.n; i++ {
						row := append([]string(nil), tmpl...)
						row[ic] = fmt.Sprintf("ring%d", i)
						row[pc] = fmt.Sprintf("ring%d", i+1)
						st.Rows = append(st.Rows, row)
					}
					last := st.Rows[len(st.Rows)-1]
					if k.kind == "cycle" {
						last[pc] = "ring0"
					} else {
						last[pc] = ""
					}
					if rapid.Bool().Draw(t, "reverseRows") {
						for i, j := first, len(st.Rows)-1; i < j; i, j = i+1, j-1 {
							st.Rows[i], st.Rows[j] = st.Rows[j], st.Rows[i]
						}
					}
					labels = []string{fmt.Sprintf("parent-%s-%d", k.kind, k.n)}
				}
				c := CaseTables{Tables: ts, Inherit: rapid.Bool().Draw(t, "inherit"), Labels: labels}
				c.Env = genEnv(t)
				c03Rec.Eval(fmt.Sprintf("large:%s>=%d", k.kind, k.n))
				c03Rec.NontrivialCase(vt.Fingerprint([]any{k.kind, k.n, labels, c.Inherit}), func() any {
					return map[string]any{"kind": k.kind, "size": k.n, "edits": labels}
				})
				if msg := vt.Try(c03Rec, c, checkC03); msg != "" && fail == "" {
					fail = msg
				}
			})
		})
	}
}
