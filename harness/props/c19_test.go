package props

import (
	"bytes"
	"fmt"
	"os"
	"os/exec"
	"path/filepath"
	"sort"
	"strconv"
	"testing"
	"time"

	"github.com/jamespfennell/gtfs"
	"github.com/jamespfennell/gtfs/extensions/nycttrips"
	"github.com/jamespfennell/gtfs/journal"
	"pgregory.net/rapid"

	"verifharness/rgen"
	"verifharness/vt"
)

// ---------------------------------------------------------------------------------------------
// C19: the directory feed source replays files in name order and survives bad files.

type DirEntry struct {
	Name string
	Kind string // good | empty | truncated | random | subdir | dangling-symlink | vanishes
	Data []byte `json:",omitempty"`
}

type CaseC19 struct {
	Entries []DirEntry
}

// "good-symlink" (a symbolic link to a good regular file kept outside the directory) is a variant of "good": see c19Entry.
var c19Kinds = []string{"good", "empty", "truncated", "random", "subdir", "dangling-symlink", "vanishes", "symlink-to-dir"}

// c19PadSizes are exact file sizes at chunk boundaries of plausible read loops.
var c19PadSizes = []int{512, 4096, 8192, 32768, 65536, 98304, 131072, 1 << 20, 1 << 22}

// c19Pad appends an unknown length-delimited field (number 1999, inside the message's extension range) so that the feed is
// exactly n bytes long; it still parses to the same content.
func c19Pad(feed []byte, n int) []byte {
	for hdr := 3; hdr <= 6; hdr++ { // tag (2 bytes) + length varint (1-4 bytes)
		payload := n - len(feed) - hdr
		if payload < 0 {
			return feed
		}
		var l []byte
		for v := uint64(payload); ; {
			b := byte(v & 0x7f)
			v >>= 7
			if v != 0 {
				l = append(l, b|0x80)
			} else {
				l = append(l, b)
				break
			}
		}
		if 2+len(l) == hdr {
			out := append(append([]byte(nil), feed...), 0xfa, 0x7c) // field 1999, wire type 2
			out = append(out, l...)
			return append(out, make([]byte, payload)...)
		}
	}
	return feed
}

var c19Rec = vt.NewRecorder("C19", "TestC19",
	"generated directories of 0-10 entries with generated names (ASCII, spaces, leading dots, non-ASCII, names whose byte order differs from numeric order, upper/lower case) x entry kind in "+
		"{good feed, empty file, truncated good feed, random bytes, sub-directory, dangling symlink, file deleted between listing and reading}. Oracle (differential): the values of Next() until nil, then 3 more nils, equal "+
		"[ParseRealtime(bytes, the source's options) for name in byte-sorted names if the file is readable and parses]; BuildJournal(directory) == BuildJournal(directory holding only the good files). "+
		"Non-trivial = a bad entry adjacent (in name order) to a good one, or an all-bad / empty directory")

var c19EnumRec = vt.NewRecorder("C19", "TestC19Enum",
	"fault enumeration: every kind pattern of length 0-4 over the 8 entry kinds (1+8+64+512+4096 directories; every third good file is reached through a symbolic link) with fixed increasing names, and every position of a single bad entry of every kind in runs of 5-8 good files, and runs of 31/32/33/64/65/100 consecutive bad entries of each kind between two good files")

func init() {
	registerReplay("C19", "TestC19", checkC19)
	registerReplay("C19", "TestC19Enum", checkC19)
}

func c19Options() *gtfs.ParseRealtimeOptions {
	return &gtfs.ParseRealtimeOptions{Extension: nycttrips.Extension(nycttrips.ExtensionOpts{FilterStaleUnassignedTrips: true, PreserveMTrainPlatformsInBushwick: false})}
}

// c19GoodFeed builds a small NYCT-style feed that is safe for the journal (six-character id prefix, stop ids present).
func c19GoodFeed(i int, variant int) []byte {
	ts := uint64(1_700_000_000 + 30*i)
	m := &rgen.Msg{Timestamp: &ts}
	for k := 0; k < 1+variant%3; k++ {
		id := fmt.Sprintf("%06d_%d..N0%dR", 6000*(k+1), k+1, k)
		assigned := true
		d := rgen.TripDesc{TripID: &id, RouteID: rgen.P(fmt.Sprint(k + 1)), StartDate: rgen.P("20231114"),
			Nyct: &rgen.NyctTrip{TrainID: rgen.P(fmt.Sprintf("0%d 1000 A/B", k)), IsAssigned: &assigned, Direction: rgen.P(int32(1))}}
		tu := &rgen.TripUpdate{Trip: d}
		first := (i + variant) % 4
		for s := first; s < first+3; s++ {
			tu.STUs = append(tu.STUs, rgen.STU{StopID: rgen.P(fmt.Sprintf("%d%02dN", k+1, s)), Arr: &rgen.Event{Time: rgen.P(int64(ts) + int64(60*s))},
				Nyct: &rgen.NyctSTU{Scheduled: rgen.P("1")}})
		}
		m.Entities = append(m.Entities, rgen.Entity{ID: fmt.Sprintf("e%d", k), TU: tu})
	}
	return m.Marshal()
}

func c19Materialise(dir string, entries []DirEntry, onlyGood map[string]bool) error {
	defer func() {
		// modification times in the REVERSE of the name order, a minute apart: the order of replay is by name, whatever the
		// file system says about age (entries that are not plain files keep whatever time they got)
		sorted := append([]DirEntry(nil), entries...)
		sort.Slice(sorted, func(i, j int) bool { return sorted[i].Name < sorted[j].Name })
		for i, e := range sorted {
			mt := time.Unix(1_700_000_000-int64(i)*60, 0)
			os.Chtimes(filepath.Join(dir, e.Name), mt, mt)
		}
	}()
	for _, e := range entries {
		if onlyGood != nil && !onlyGood[e.Name] {
			continue
		}
		p := filepath.Join(dir, e.Name)
		switch e.Kind {
		case "subdir":
			if err := os.Mkdir(p, 0o755); err != nil {
				return err
			}
			os.WriteFile(filepath.Join(p, "inner"), c19GoodFeed(0, 0), 0o644)
			// the sub-directory holds parseable files named like its siblings (an archive of older copies, say),
			// also one level further down: none of them is an entry of the directory
			os.Mkdir(filepath.Join(p, "older"), 0o755)
			for k, sib := range entries {
				if k >= 8 {
					break
				}
				if sib.Kind != "subdir" && filepath.Base(sib.Name) == sib.Name {
					os.WriteFile(filepath.Join(p, sib.Name), c19GoodFeed(40+k, 1), 0o644)
					os.WriteFile(filepath.Join(p, "older", sib.Name), c19GoodFeed(80+k, 2), 0o644)
				}
			}
		case "dangling-symlink":
			if err := os.Symlink(filepath.Join(dir, "does-not-exist-"+e.Name), p); err != nil {
				return err
			}
		case "symlink-to-dir":
			store := dir + "-store"
			os.MkdirAll(filepath.Join(store, "d-"+e.Name), 0o755)
			os.WriteFile(filepath.Join(store, "d-"+e.Name, "inner"), c19GoodFeed(1, 1), 0o644)
			if err := os.Symlink(filepath.Join(store, "d-"+e.Name), p); err != nil {
				return err
			}
		case "good-symlink":
			if onlyGood != nil { // the "good files alone" directory holds plain copies
				if err := os.WriteFile(p, e.Data, 0o644); err != nil {
					return err
				}
				break
			}
			store := dir + "-store"
			os.MkdirAll(store, 0o755)
			if err := os.WriteFile(filepath.Join(store, "f-"+e.Name), e.Data, 0o644); err != nil {
				return err
			}
			if err := os.Symlink(filepath.Join(store, "f-"+e.Name), p); err != nil {
				return err
			}
		default:
			if err := os.WriteFile(p, e.Data, 0o644); err != nil {
				return err
			}
		}
	}
	return nil
}

func checkC19(c CaseC19) error {
	names := map[string]bool{}
	for _, e := range c.Entries {
		if e.Name == "" || e.Name == "." || e.Name == ".." || filepath.Base(e.Name) != e.Name || names[e.Name] {
			return vt.Failf("malformed case: bad or duplicate name %q", e.Name)
		}
		names[e.Name] = true
	}
	dir, err := os.MkdirTemp("", "verif-c19-")
	if err != nil {
		return fmt.Errorf("temp dir: %w", err)
	}
	defer os.RemoveAll(dir)
	defer os.RemoveAll(dir + "-store")
	if err := c19Materialise(dir, c.Entries, nil); err != nil {
		return fmt.Errorf("materialise: %w", err)
	}
	src, err := journal.NewDirectoryGtfsrtSource(dir)
	if err != nil {
		return vt.Failf("NewDirectoryGtfsrtSource failed on a readable directory: %v", err)
	}
	// files that vanish after listing
	for _, e := range c.Entries {
		if e.Kind == "vanishes" {
			os.Remove(filepath.Join(dir, e.Name))
		}
	}
	// expectation
	sorted := append([]DirEntry(nil), c.Entries...)
	sort.Slice(sorted, func(i, j int) bool { return sorted[i].Name < sorted[j].Name })
	var want []string
	good := map[string]bool{}
	for _, e := range sorted {
		switch e.Kind {
		case "subdir", "dangling-symlink", "vanishes", "symlink-to-dir":
			continue
		}
		r, err := gtfs.ParseRealtime(append([]byte(nil), e.Data...), c19Options())
		if err != nil {
			continue
		}
		want = append(want, e.Name+" => "+rgen.CanonJS(rgen.Normalize(r)))
		good[e.Name] = true
	}
	var got []string
	for i := 0; i <= len(c.Entries)+1; i++ {
		r := src.Next()
		if r == nil {
			break
		}
		got = append(got, rgen.CanonJS(rgen.Normalize(r)))
	}
	for i := 0; i < 3; i++ {
		if r := src.Next(); r != nil {
			return vt.Failf("Next() returned a value after the stream had ended")
		}
	}
	if len(got) != len(want) {
		return vt.FailSig("stream-length", "directory %v: Next() yielded %d feeds, want %d (the readable, parseable files in name order: %v)", describe(sorted), len(got), len(want), keys(want))
	}
	for i := range want {
		w := want[i]
		name, content := w[:indexOf(w, " => ")], w[indexOf(w, " => ")+4:]
		if got[i] != content {
			return vt.FailSig("stream-order", "directory %v: feed %d yielded by Next() is not the parse of %q: %s", describe(sorted), i, name, rgen.FirstDiff(got[i], content))
		}
	}
	// journal over the directory == journal over the good files alone
	dir2, err := os.MkdirTemp("", "verif-c19-good-")
	if err != nil {
		return fmt.Errorf("temp dir: %w", err)
	}
	defer os.RemoveAll(dir2)
	if err := c19Materialise(dir2, c.Entries, good); err != nil {
		return fmt.Errorf("materialise: %w", err)
	}
	// (re-create the vanished files' absence: they are not in the good set anyway)
	srcA, err := journal.NewDirectoryGtfsrtSource(dir)
	if err != nil {
		return vt.Failf("NewDirectoryGtfsrtSource: %v", err)
	}
	srcB, err := journal.NewDirectoryGtfsrtSource(dir2)
	if err != nil {
		return vt.Failf("NewDirectoryGtfsrtSource: %v", err)
	}
	lo, hi := time.Unix(0, 0), time.Unix(1<<40, 0)
	ja, jb := normJournal(journal.BuildJournal(srcA, lo, hi)), normJournal(journal.BuildJournal(srcB, lo, hi))
	if jsonStr(ja) != jsonStr(jb) {
		return vt.FailSig("journal-differs", "directory %v: the journal built from the directory differs from the journal built from its good files alone: %s", describe(sorted), rgen.FirstDiff(jsonStr(ja), jsonStr(jb)))
	}
	return nil
}

func indexOf(s, sub string) int { return bytes.Index([]byte(s), []byte(sub)) }

func keys(want []string) []string {
	var out []string
	for _, w := range want {
		out = append(out, w[:indexOf(w, " => ")])
	}
	return out
}

func describe(es []DirEntry) []string {
	var out []string
	for _, e := range es {
		out = append(out, fmt.Sprintf("%q:%s", e.Name, e.Kind))
	}
	return out
}

var c19NameShapes = []string{"%d", "%02d", "feed-%d.pb", "Feed-%d.pb", " %d", ".%d", "%d.gtfsrt", "é%d", "漢%d", "%d ", "a b %d", "_%d", "~%d", "Z%d", "z%d"}

func c19Entry(kind string, name string, i int, variant int, t *rapid.T) DirEntry {
	e := DirEntry{Name: name, Kind: kind}
	switch kind {
	case "good", "vanishes":
		e.Data = c19GoodFeed(i, variant)
		if kind == "good" && ((t == nil && (i+variant)%3 == 2) || (t != nil && rapid.IntRange(0, 5).Draw(t, "viaSymlink") == 0)) {
			e.Kind = "good-symlink" // reading it follows the link: it is a readable, parseable entry like any other
		}
		if t != nil && rapid.IntRange(0, 9).Draw(t, "padded") == 0 {
			e.Data = c19Pad(e.Data, rapid.SampledFrom(c19PadSizes).Draw(t, "padTo"))
		}
	case "empty":
		e.Data = []byte{}
	case "truncated":
		g := c19GoodFeed(i, variant)
		cut := len(g) / 2
		if t != nil {
			cut = rapid.IntRange(1, len(g)-1).Draw(t, "cut")
		}
		e.Data = g[:cut]
	case "random":
		e.Data = []byte("\x00\xff garbage \x0a\x08\x96\x01")
		if t != nil {
			e.Data = rapid.SliceOfN(rapid.Byte(), 1, 40).Draw(t, "randomBytes")
		}
	}
	return e
}

func c19Classify(c CaseC19) (classes []string, nontrivial bool) {
	sorted := append([]DirEntry(nil), c.Entries...)
	sort.Slice(sorted, func(i, j int) bool { return sorted[i].Name < sorted[j].Name })
	isGood := func(e DirEntry) bool {
		if e.Kind == "subdir" || e.Kind == "dangling-symlink" || e.Kind == "vanishes" || e.Kind == "symlink-to-dir" {
			return false
		}
		_, err := gtfs.ParseRealtime(append([]byte(nil), e.Data...), c19Options())
		return err == nil
	}
	ng := 0
	for i, e := range sorted {
		g := isGood(e)
		if g {
			ng++
		}
		classes = append(classes, e.Kind)
		if i > 0 && g != isGood(sorted[i-1]) {
			nontrivial = true
		}
		if !g && i == 0 {
			classes = append(classes, "bad-first")
		}
		if !g && i == len(sorted)-1 {
			classes = append(classes, "bad-last")
		}
		if e.Kind == "truncated" && g {
			classes = append(classes, "truncated-but-parses")
		}
	}
	if ng == 0 {
		nontrivial = true
		if len(sorted) == 0 {
			classes = append(classes, "empty-directory")
		} else {
			classes = append(classes, "all-bad")
		}
	}
	return dedupe(classes), nontrivial
}

func TestC19(t *testing.T) {
	rapid.Check(t, func(t *rapid.T) {
		n := rapid.IntRange(0, 10).Draw(t, "nEntries")
		var c CaseC19
		used := map[string]bool{}
		if rapid.IntRange(0, 19).Draw(t, "longBadRun") == 0 {
			// a long run of consecutive bad entries between good files
			run := rapid.SampledFrom([]int{31, 32, 33, 64, 65, 130, 257}).Draw(t, "badRunLen")
			c.Entries = append(c.Entries, c19Entry("good", "a-first", 0, 1, nil))
			used["a-first"] = true
			for i := 0; i < run; i++ {
				kind := rapid.SampledFrom(c19Kinds[1:]).Draw(t, "badKind")
				name := fmt.Sprintf("b-%03d", i)
				used[name] = true
				e := c19Entry(kind, name, i, i, nil)
				c.Entries = append(c.Entries, e)
			}
			c.Entries = append(c.Entries, c19Entry("good", "c-last", 5, 2, nil))
			used["c-last"] = true
		} else if rapid.IntRange(0, 79).Draw(t, "manyGood") == 0 {
			// many good files
			for i, k := 0, rapid.SampledFrom([]int{65, 130}).Draw(t, "manyGoodN"); i < k; i++ {
				name := fmt.Sprintf("g%04d", i)
				used[name] = true
				c.Entries = append(c.Entries, c19Entry("good", name, i%50, i, nil))
			}
		}
		var family []string
		if rapid.IntRange(0, 5).Draw(t, "nameFamily") == 0 {
			// names that derive from one stem: the bare stem, numbered copies with suffixes of different length, backups
			stem := rapid.SampledFrom([]string{"feed", "gtfs.pb", "a", "2024-01-01"}).Draw(t, "stem")
			for _, sfx := range []string{"", ".1", ".2", ".9", ".10", ".100", "-x", ".bak", "2", "10", " (1)", ".01", "~"} {
				family = append(family, stem+sfx)
			}
			family = rapid.Permutation(family).Draw(t, "familyOrder")
		}
		for i := 0; i < n; i++ {
			name := fmt.Sprintf(rapid.SampledFrom(c19NameShapes).Draw(t, "nameShape"), rapid.IntRange(0, 12).Draw(t, "nameN"))
			if i < len(family) {
				name = family[i]
			}
			if used[name] {
				name = fmt.Sprintf("%s-%d", name, i)
			}
			used[name] = true
			kind := rapid.SampledFrom(c19Kinds).Draw(t, "kind")
			if rapid.IntRange(0, 2).Draw(t, "preferGood") == 0 {
				kind = "good"
			}
			c.Entries = append(c.Entries, c19Entry(kind, name, rapid.IntRange(0, 20).Draw(t, "feedTime"), rapid.IntRange(0, 5).Draw(t, "variant"), t))
		}
		classes, nt := c19Classify(c)
		c19Rec.Eval(classes...)
		if nt {
			c19Rec.NontrivialCase(vt.Fingerprint(c), func() any { return describe(c.Entries) })
		}
		vt.Run(t, c19Rec, c, checkC19)
	})
}

func TestC19Enum(t *testing.T) {
	if os.Getenv("VERIF_PROP") == "" {
		t.Skip("driver only")
	}
	shard, _ := strconv.Atoi(os.Getenv("VERIF_SHARD"))
	shards, _ := strconv.Atoi(os.Getenv("VERIF_SHARDS"))
	if shards <= 0 {
		shards = 1
	}
	maxLen := 3
	if tierThorough() {
		maxLen = 4
		c19EnumRec.Exhaustive = true
	} else {
		c19EnumRec.Rule = "fault enumeration (quick tier): every kind pattern of length 0-3 over the 8 entry kinds (1+8+64+512 directories; every third good file is reached through a symbolic link), every position of a single bad entry of every kind in runs of 5 good files, runs of 31-100 consecutive bad entries of each kind between two good files; the thorough tier goes to length 4"
		c19EnumRec.Exhaustive = true
	}
	idx := 0
	run := func(c CaseC19, label string) { c19EnumRun(c, label, &idx, shard, shards, t) }
	for l := 0; l <= maxLen; l++ {
		total := 1
		for i := 0; i < l; i++ {
			total *= len(c19Kinds)
		}
		for code := 0; code < total; code++ {
			var c CaseC19
			x := code
			for i := 0; i < l; i++ {
				c.Entries = append(c.Entries, c19Entry(c19Kinds[x%len(c19Kinds)], fmt.Sprintf("f%02d", i), i, i, nil))
				x /= len(c19Kinds)
			}
			run(c, fmt.Sprintf("pattern-length-%d", l))
		}
	}
	// good files of exact sizes (chunk boundaries of read loops), alone and between other good files
	for _, size := range c19PadSizes {
		for _, delta := range []int{-1, 0, 1} {
			var c CaseC19
			c.Entries = append(c.Entries, c19Entry("good", "a", 0, 0, nil))
			e := c19Entry("good", "b", 1, 1, nil)
			e.Data = c19Pad(e.Data, size+delta)
			c.Entries = append(c.Entries, e, c19Entry("good", "c", 2, 2, nil))
			c19EnumRun(c, "exact-file-size", &idx, shard, shards, t)
		}
	}
	// long runs of one bad kind between two good files
	for _, run := range []int{31, 32, 33, 64, 65, 100} {
		for _, kind := range c19Kinds[1:] {
			var c CaseC19
			c.Entries = append(c.Entries, c19Entry("good", "a", 0, 0, nil))
			for i := 0; i < run; i++ {
				c.Entries = append(c.Entries, c19Entry(kind, fmt.Sprintf("b%03d", i), i, i, nil))
			}
			c.Entries = append(c.Entries, c19Entry("good", "c", 3, 1, nil))
			run2 := run
			_ = run2
			c19EnumRun(c, "long-bad-run", &idx, shard, shards, t)
		}
	}
	runs := []int{5}
	if tierThorough() {
		runs = []int{5, 6, 7, 8}
	}
	for _, n := range runs {
		for pos := 0; pos < n; pos++ {
			for _, kind := range c19Kinds[1:] {
				var c CaseC19
				for i := 0; i < n; i++ {
					k := "good"
					if i == pos {
						k = kind
					}
					// names in which byte order differs from numeric order: 10 sorts before 9
					c.Entries = append(c.Entries, c19Entry(k, fmt.Sprintf("%d", 7+i), i, i, nil))
				}
				run(c, "single-bad-in-good-run")
			}
		}
	}
}

func c19EnumRun(c CaseC19, label string, idx *int, shard, shards int, t *testing.T) {
	*idx++
	if *idx%shards != shard {
		return
	}
	c19EnumRec.Eval(label)
	_, nt := c19Classify(c)
	if nt {
		c19EnumRec.NontrivialCase(vt.Fingerprint(c), func() any {
			d := describe(c.Entries)
			if len(d) > 12 {
				d = append(append([]string{}, d[:6]...), fmt.Sprintf("... %d more ...", len(d)-8), d[len(d)-2], d[len(d)-1])
			}
			return d
		})
	}
	vt.Run(t, c19EnumRec, c, checkC19)
}

// TestC19CLI compares the CLI's journal command with the library path for a few directories (thorough tier).
func TestC19CLI(t *testing.T) {
	cli := os.Getenv("VERIF_CLI")
	if cli == "" {
		t.Skip("VERIF_CLI not set")
	}
	rec := vt.NewRecorder("C19", "TestC19CLI", "the CLI's `journal` command run on materialised directories; its trips.csv / stop_times.csv must equal ExportToCsv of BuildJournal over the good files alone")
	for variant := 0; variant < 12; variant++ {
		var c CaseC19
		for i := 0; i < 6; i++ {
			kind := "good"
			if (i+variant)%3 == 0 {
				kind = c19Kinds[1+(i+variant)%5] // never "vanishes": the CLI lists and reads in one go
			}
			c.Entries = append(c.Entries, c19Entry(kind, fmt.Sprintf("%d", 8+i), i, variant, nil))
		}
		dir, _ := os.MkdirTemp("", "verif-c19-cli-")
		out, _ := os.MkdirTemp("", "verif-c19-cli-out-")
		good := map[string]bool{}
		for _, e := range c.Entries {
			if e.Kind == "good" || e.Kind == "good-symlink" {
				good[e.Name] = true
			}
		}
		dirGood, _ := os.MkdirTemp("", "verif-c19-cli-good-")
		defer os.RemoveAll(dir + "-store")
		c19Materialise(dir, c.Entries, nil)
		c19Materialise(dirGood, c.Entries, good)
		cmd := exec.Command(cli, "journal", "-o", out, dir)
		b, err := cmd.CombinedOutput()
		rec.Eval("cli-run")
		rec.NontrivialCase(vt.Fingerprint(c), func() any { return describe(c.Entries) })
		if err != nil {
			os.RemoveAll(dir)
			os.RemoveAll(out)
			os.RemoveAll(dirGood)
			path := vt.SaveFound("C19", "TestC19", c, vt.Failf("CLI failed: %v\n%s", err, b))
			t.Fatalf("VERIF-FAIL property=C19 test=TestC19CLI replay=%s\nCLI failed: %v\n%s", path, err, b)
		}
		src, _ := journal.NewDirectoryGtfsrtSource(dirGood)
		exp, _ := journal.BuildJournal(src, time.Unix(0, 0), time.Now()).ExportToCsv()
		tripsCsv, _ := os.ReadFile(filepath.Join(out, "trips.csv"))
		stCsv, _ := os.ReadFile(filepath.Join(out, "stop_times.csv"))
		os.RemoveAll(dir)
		os.RemoveAll(out)
		os.RemoveAll(dirGood)
		if !bytes.Equal(tripsCsv, exp.TripsCsv) || !bytes.Equal(stCsv, exp.StopTimesCsv) {
			path := vt.SaveFound("C19", "TestC19", c, vt.Failf("CLI output differs"))
			t.Fatalf("VERIF-FAIL property=C19 test=TestC19CLI replay=%s\nCLI journal output differs from the journal of the good files:\n%s\nvs\n%s", path, tripsCsv, exp.TripsCsv)
		}
	}
}

// TestC19Large: directories with thousands of entries (beyond any listing batch or fixed buffer): mostly good files with bad
// entries of every kind sprinkled in, names of different lengths so that lexicographic order is not numeric order.
func TestC19Large(t *testing.T) {
	for _, n := range []int{3001, 9001} {
		n := n
		t.Run(fmt.Sprint(n), func(outer *testing.T) {
			fail := ""
			defer func() {
				if fail != "" {
					outer.Fatalf("%s", fail)
				}
			}()
			rapid.Check(outer, func(t *rapid.T) {
				var c CaseC19
				every := rapid.SampledFrom([]int{7, 50, 997}).Draw(t, "badEvery")
				shape := rapid.SampledFrom([]string{"feed-%d.pb", "%d", "f%05d"}).Draw(t, "nameShape")
				for i := 0; i < n; i++ {
					kind := "good"
					if i%every == every-1 {
						kind = c19Kinds[1+(i/every)%(len(c19Kinds)-1)]
					}
					c.Entries = append(c.Entries, c19Entry(kind, fmt.Sprintf(shape, i), i%2000, i, nil))
				}
				c19Rec.Eval(fmt.Sprintf("large:entries>=%d", n))
				c19Rec.NontrivialCase(vt.Fingerprint([]any{n, every, shape}), func() any {
					return map[string]any{"entries": n, "bad_every": every, "name_shape": shape}
				})
				if msg := vt.Try(c19Rec, c, checkC19); msg != "" && fail == "" {
					fail = msg
				}
			})
		})
	}
}
