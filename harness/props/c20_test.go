package props

import (
	"bytes"
	"encoding/csv"
	"fmt"
	"reflect"
	"strconv"
	"strings"
	"testing"
	"time"

	"github.com/jamespfennell/gtfs"
	"github.com/jamespfennell/gtfs/journal"
	"pgregory.net/rapid"

	"verifharness/vt"
)

// ---------------------------------------------------------------------------------------------
// C20: ExportToCsv is a complete, parseable rendering of the journal.

type C20StopTime struct {
	StopID       string
	Arrival      *int64
	Departure    *int64
	Track        *string
	LastObserved int64
	MarkedPast   *int64
}

type C20Trip struct {
	UID, TripID, RouteID string
	Direction            int // 0 unspecified, 1 true, 2 false
	Start                int64
	ZeroStart            bool // StartTime is the zero time.Time
	VehicleID            string
	IsAssigned           bool
	LastObserved         int64
	MarkedPast           *int64
	NumUpdates           int
	NumChanges           int
	NumRewrites          int
	StopTimes            []C20StopTime
}

type CaseC20 struct {
	vt.Env
	Trips []C20Trip
	Zone  string // presentation zone of the time values (must not matter)
	// SubSec nanoseconds are added to every time value: the tables carry Unix seconds, i.e. time.Time.Unix() of the value
	SubSec int64 `json:",omitempty"`
}

var c20Rec = vt.NewRecorder("C20", "TestC20",
	"journals built directly: 0-8 trips x 0-10 stop times, every presence pattern of track/arrival/departure/marked-past, "+
		"direction in {unspecified,true,false}, ids/tracks over a CSV-safe alphabet (no comma, quote, CR, LF; spaces, tabs, non-ASCII, empty allowed), "+
		"negative/large counters and times; non-trivial = >=2 trips with different stop-time counts one of which is 0, or an absent optional; distinct by JSON fingerprint of the journal")

func init() { registerReplay("C20", "TestC20", checkC20) }

var c20SafeRunes = []rune("abcXYZ019 _-.:;#/\\'|\t*éß漢🚇")

func genC20String(t *rapid.T, label string) string {
	switch rapid.IntRange(0, 9).Draw(t, label+"Kind") {
	case 0:
		return ""
	case 1:
		return " "
	case 2:
		return rapid.SampledFrom([]string{" lead", "trail ", "#EL12", "123456_A..N", "-", "0", "NULL", "a b", "\tx", "01 0603+ SFT/242", "A&B<c>'d'", strings.Repeat("0123456789abcdef", 300), strings.Repeat("0123456789abcdef", 4200)}).Draw(t, label+"Const")
	default:
		return rapid.StringOfN(rapid.SampledFrom(c20SafeRunes), 0, 12, -1).Draw(t, label)
	}
}

func genC20Time(t *rapid.T, label string) int64 {
	switch rapid.IntRange(0, 5).Draw(t, label+"Kind") {
	case 0:
		return rapid.SampledFrom([]int64{0, -1, 1, 1 << 31, 1<<31 - 1, -(1 << 31), 1 << 40, -62135596800, 253402300799}).Draw(t, label+"Const")
	default:
		return rapid.Int64Range(1_500_000_000, 1_800_000_000).Draw(t, label)
	}
}

func genC20OptTime(t *rapid.T, label string) *int64 {
	if rapid.Bool().Draw(t, label+"Present") {
		v := genC20Time(t, label)
		return &v
	}
	return nil
}

func genC20(t *rapid.T) (c CaseC20) {
	c.Zone = rapid.SampledFrom([]string{"UTC", "America/New_York", "Asia/Kathmandu", "fixed"}).Draw(t, "zone")
	c.SubSec = rapid.SampledFrom([]int64{0, 0, 0, 1, 499_999_999, 500_000_000, 750_000_000, 999_999_999}).Draw(t, "subSecond")
	n := rapid.IntRange(0, 8).Draw(t, "numTrips")
	if rapid.IntRange(0, 24).Draw(t, "sizeClass") == 0 {
		n = rapid.SampledFrom([]int{17, 33, 70, 130, 260, 520, 1025, 1030, 2050, 2100, 4100, 4101}).Draw(t, "manyTrips")
	}
	total := n
	if n > 600 {
		n = rapid.IntRange(1, 8).Draw(t, "templates") // thousands of trips: a few generated ones repeated under distinct UIDs
	}
	defer func() {
		short := func(s string) string {
			if len(s) > 300 {
				return s[:300]
			}
			return s
		}
		for i := n; i < total; i++ {
			tr := c.Trips[i%n]
			tr.UID = short(tr.UID) + fmt.Sprint(i)
			tr.TripID, tr.RouteID, tr.VehicleID = short(tr.TripID), short(tr.RouteID), short(tr.VehicleID)
			tr.StopTimes = append([]C20StopTime(nil), tr.StopTimes...)
			for k := range tr.StopTimes {
				tr.StopTimes[k].StopID = short(tr.StopTimes[k].StopID)
				if tr.StopTimes[k].Track != nil {
					v := short(*tr.StopTimes[k].Track)
					tr.StopTimes[k].Track = &v
				}
			}
			c.Trips = append(c.Trips, tr)
		}
	}()
	for i := 0; i < n; i++ {
		var tr C20Trip
		tr.UID = genC20String(t, "uid")
		tr.TripID = genC20String(t, "tripID")
		tr.RouteID = genC20String(t, "routeID")
		tr.Direction = rapid.IntRange(0, 2).Draw(t, "direction")
		tr.Start = genC20Time(t, "start")
		tr.ZeroStart = rapid.IntRange(0, 15).Draw(t, "zeroStart") == 0
		tr.VehicleID = genC20String(t, "vehicleID")
		tr.IsAssigned = rapid.Bool().Draw(t, "assigned")
		tr.LastObserved = genC20Time(t, "lastObserved")
		tr.MarkedPast = genC20OptTime(t, "markedPast")
		cnt := rapid.SampledFrom([]int{0, 1, -1, 7, 1 << 40, -(1 << 40)})
		tr.NumUpdates = cnt.Draw(t, "numUpdates")
		tr.NumChanges = cnt.Draw(t, "numChanges")
		tr.NumRewrites = cnt.Draw(t, "numRewrites")
		m := rapid.IntRange(0, 10).Draw(t, "numStopTimes")
		if rapid.IntRange(0, 3).Draw(t, "forceEmpty") == 0 {
			m = 0
		}
		for j := 0; j < m; j++ {
			var st C20StopTime
			st.StopID = genC20String(t, "stopID")
			st.Arrival = genC20OptTime(t, "arrival")
			st.Departure = genC20OptTime(t, "departure")
			if rapid.Bool().Draw(t, "trackPresent") {
				s := genC20String(t, "track")
				st.Track = &s
			}
			st.LastObserved = genC20Time(t, "stLastObserved")
			st.MarkedPast = genC20OptTime(t, "stMarkedPast")
			tr.StopTimes = append(tr.StopTimes, st)
		}
		c.Trips = append(c.Trips, tr)
	}
	return c
}

func c20Loc(zone string) *time.Location {
	switch zone {
	case "fixed":
		return time.FixedZone("X", -9*3600-30*60)
	case "UTC", "":
		return time.UTC
	}
	loc, err := time.LoadLocation(zone)
	if err != nil {
		return time.UTC
	}
	return loc
}

func c20Build(c CaseC20) *journal.Journal {
	loc := c20Loc(c.Zone)
	tm := func(u int64) time.Time { return time.Unix(u, c.SubSec).In(loc) }
	otm := func(u *int64) *time.Time {
		if u == nil {
			return nil
		}
		v := tm(*u)
		return &v
	}
	ostr := func(s *string) *string {
		if s == nil {
			return nil
		}
		v := *s
		return &v
	}
	j := &journal.Journal{}
	for _, tr := range c.Trips {
		jt := journal.Trip{
			TripUID: tr.UID, TripID: tr.TripID, RouteID: tr.RouteID,
			DirectionID: gtfs.DirectionID(tr.Direction),
			StartTime:   tm(tr.Start), VehicleID: tr.VehicleID, IsAssigned: tr.IsAssigned,
			LastObserved: tm(tr.LastObserved), MarkedPast: otm(tr.MarkedPast),
			NumUpdates: tr.NumUpdates, NumScheduleChanges: tr.NumChanges, NumScheduleRewrites: tr.NumRewrites,
		}
		if tr.ZeroStart {
			jt.StartTime = time.Time{}
		}
		for _, st := range tr.StopTimes {
			jt.StopTimes = append(jt.StopTimes, journal.StopTime{
				StopID: st.StopID, ArrivalTime: otm(st.Arrival), DepartureTime: otm(st.Departure),
				Track: ostr(st.Track), LastObserved: tm(st.LastObserved), MarkedPast: otm(st.MarkedPast),
			})
		}
		j.Trips = append(j.Trips, jt)
	}
	return j
}

func c20ReadTable(b []byte, wantHeader []string) ([]map[string]string, error) {
	r := csv.NewReader(bytes.NewReader(b))
	recs, err := r.ReadAll()
	if err != nil {
		return nil, fmt.Errorf("does not parse as CSV: %v\n%q", err, b)
	}
	if len(recs) == 0 {
		return nil, fmt.Errorf("no header row: %q", b)
	}
	// the statement speaks of reading back "under the header names": every expected name must be there (exactly once);
	// additional columns would not contradict it and are ignored
	idx := map[string]int{}
	for i, h := range recs[0] {
		if _, dup := idx[h]; dup {
			return nil, fmt.Errorf("header names column %q twice: %q", h, recs[0])
		}
		idx[h] = i
	}
	for _, h := range wantHeader {
		if _, ok := idx[h]; !ok {
			return nil, fmt.Errorf("header %q lacks column %q", recs[0], h)
		}
	}
	var rows []map[string]string
	for _, rec := range recs[1:] {
		m := map[string]string{}
		for _, h := range wantHeader {
			m[h] = rec[idx[h]]
		}
		rows = append(rows, m)
	}
	return rows, nil
}

func optUnix(u *int64) string {
	if u == nil {
		return ""
	}
	return strconv.FormatInt(*u, 10)
}

func checkC20(c CaseC20) error {
	j := c20Build(c)
	pristine := c20Build(c)
	exp, err := j.ExportToCsv()
	if err != nil {
		return vt.Failf("ExportToCsv returned an error: %v", err)
	}
	if !reflect.DeepEqual(j, pristine) {
		return vt.Failf("ExportToCsv modified the journal")
	}
	trips, err := c20ReadTable(exp.TripsCsv, []string{"trip_uid", "trip_id", "route_id", "direction_id", "start_time", "vehicle_id", "last_observed", "marked_past", "num_updates", "num_schedule_changes", "num_schedule_rewrites"})
	if err != nil {
		return vt.Failf("trips table: %v", err)
	}
	if len(trips) != len(c.Trips) {
		return vt.Failf("trips table has %d rows, journal has %d trips\n%s", len(trips), len(c.Trips), exp.TripsCsv)
	}
	for i, tr := range c.Trips {
		start := tr.Start
		if tr.ZeroStart {
			start = time.Time{}.Unix()
		}
		want := map[string]string{
			"trip_uid": tr.UID, "trip_id": tr.TripID, "route_id": tr.RouteID,
			"direction_id": map[int]string{0: "", 1: "1", 2: "0"}[tr.Direction],
			"start_time":   strconv.FormatInt(start, 10), "vehicle_id": tr.VehicleID,
			"last_observed": strconv.FormatInt(tr.LastObserved, 10), "marked_past": optUnix(tr.MarkedPast),
			"num_updates": strconv.Itoa(tr.NumUpdates), "num_schedule_changes": strconv.Itoa(tr.NumChanges),
			"num_schedule_rewrites": strconv.Itoa(tr.NumRewrites),
		}
		if !reflect.DeepEqual(trips[i], want) {
			return vt.Failf("trips row %d decodes to %q, want %q", i, trips[i], want)
		}
	}
	sts, err := c20ReadTable(exp.StopTimesCsv, []string{"trip_uid", "stop_id", "track", "arrival_time", "departure_time", "last_observed", "marked_past"})
	if err != nil {
		return vt.Failf("stop times table: %v", err)
	}
	k := 0
	for ti, tr := range c.Trips {
		for si, st := range tr.StopTimes {
			if k >= len(sts) {
				return vt.Failf("stop times table has only %d rows; missing row for trip %d stop time %d", len(sts), ti, si)
			}
			track := ""
			if st.Track != nil {
				track = *st.Track
			}
			want := map[string]string{
				"trip_uid": tr.UID, "stop_id": st.StopID, "track": track,
				"arrival_time": optUnix(st.Arrival), "departure_time": optUnix(st.Departure),
				"last_observed": strconv.FormatInt(st.LastObserved, 10), "marked_past": optUnix(st.MarkedPast),
			}
			if !reflect.DeepEqual(sts[k], want) {
				return vt.Failf("stop times row %d (trip %d, stop time %d) decodes to %q, want %q", k, ti, si, sts[k], want)
			}
			k++
		}
	}
	if k != len(sts) {
		return vt.Failf("stop times table has %d rows, journal has %d stop times", len(sts), k)
	}
	// an export that the caller keeps must not change when other journals are exported later
	keptTrips, keptStops := append([]byte(nil), exp.TripsCsv...), append([]byte(nil), exp.StopTimesCsv...)
	other := CaseC20{Zone: c.Zone}
	for i := len(c.Trips) - 1; i >= 0; i-- {
		t := c.Trips[i]
		t.UID, t.VehicleID = "other-"+t.UID, "x"
		other.Trips = append(other.Trips, t)
	}
	other.Trips = append(other.Trips, C20Trip{UID: "extra", TripID: "extra-trip", StopTimes: []C20StopTime{{StopID: "Z"}, {StopID: "Y"}}})
	for i := 0; i < 3; i++ {
		if _, err := c20Build(other).ExportToCsv(); err != nil {
			return vt.Failf("second export failed: %v", err)
		}
	}
	if !bytes.Equal(exp.TripsCsv, keptTrips) || !bytes.Equal(exp.StopTimesCsv, keptStops) {
		return vt.FailSig("export-overwritten", "the tables returned by ExportToCsv changed after other journals were exported:\n before %q\n after  %q", keptTrips, exp.TripsCsv)
	}
	return nil
}

func c20Classify(c CaseC20) (classes []string, nontrivial bool) {
	counts := map[int]bool{}
	absent := false
	for _, tr := range c.Trips {
		counts[len(tr.StopTimes)] = true
		if tr.MarkedPast == nil || tr.Direction == 0 {
			absent = true
		}
		for _, st := range tr.StopTimes {
			if st.Arrival == nil || st.Departure == nil || st.Track == nil || st.MarkedPast == nil {
				absent = true
			}
		}
	}
	if len(c.Trips) == 0 {
		classes = append(classes, "empty-journal")
	}
	if c.SubSec != 0 {
		classes = append(classes, "sub-second-times")
	}
	if len(c.Trips) >= 2 {
		classes = append(classes, "multi-trip")
	}
	for _, n := range []int{4097, 1025, 257, 17} {
		if len(c.Trips) >= n {
			classes = append(classes, fmt.Sprintf("trips>=%d", n))
			break
		}
	}
	if counts[0] && len(c.Trips) > 0 {
		classes = append(classes, "trip-without-stop-times")
	}
	if absent {
		classes = append(classes, "absent-optional")
	}
	nontrivial = (len(c.Trips) >= 2 && len(counts) >= 2 && counts[0]) || absent
	return
}

func TestC20(t *testing.T) {
	rapid.Check(t, func(t *rapid.T) {
		c := genC20(t)
		c.Env = genEnv(t)
		classes, nt := c20Classify(c)
		c20Rec.Eval(classes...)
		if nt {
			c20Rec.NontrivialCase(vt.Fingerprint(c), func() any {
				if len(c.Trips) > 12 {
					return map[string]any{"zone": c.Zone, "trips_total": len(c.Trips), "first_trips": c.Trips[:3]}
				}
				return c
			})
		}
		vt.Run(t, c20Rec, c, checkC20)
	})
}

// TestC20Large: journals of 16385, 20003 and 70003 trips (beyond 16384 and 65,536, counts that leave a remainder): a few generated
// trips repeated under distinct UIDs, exported, read back and compared row by row.
func TestC20Large(t *testing.T) {
	for _, n := range []int{16385, 20003, 70003} {
		n := n
		t.Run(fmt.Sprint(n), func(outer *testing.T) {
			fail := ""
			defer func() {
				if fail != "" {
					outer.Fatalf("%s", fail)
				}
			}()
			rapid.Check(outer, func(t *rapid.T) {
				base := genC20(t)
				if len(base.Trips) == 0 {
					t.Skip("no template trip")
				}
				k := min(len(base.Trips), 8)
				c := CaseC20{Zone: base.Zone, SubSec: base.SubSec}
				short := func(s string) string {
					if len(s) > 40 {
						return s[:40]
					}
					return s
				}
				for i := 0; i < n; i++ {
					tr := base.Trips[i%k]
					tr.UID = short(tr.UID) + fmt.Sprint(i)
					tr.TripID, tr.RouteID, tr.VehicleID = short(tr.TripID), short(tr.RouteID), short(tr.VehicleID)
					tr.StopTimes = append([]C20StopTime(nil), tr.StopTimes...)
					if len(tr.StopTimes) > 3 {
						tr.StopTimes = tr.StopTimes[:3]
					}
					for j := range tr.StopTimes {
						tr.StopTimes[j].StopID = short(tr.StopTimes[j].StopID)
						if tr.StopTimes[j].Track != nil {
							v := short(*tr.StopTimes[j].Track)
							tr.StopTimes[j].Track = &v
						}
					}
					c.Trips = append(c.Trips, tr)
				}
				c.Env = genEnv(t)
				c20Rec.Eval(fmt.Sprintf("large:trips>=%d", n))
				c20Rec.NontrivialCase(vt.Fingerprint([]any{n, c.Zone, c.SubSec, k}), func() any {
					return map[string]any{"trips": n, "templates": k}
				})
				if msg := vt.Try(c20Rec, c, checkC20); msg != "" && fail == "" {
					fail = msg
				}
			})
		})
	}
}
