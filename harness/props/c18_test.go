package props

import (
	"fmt"
	"os"
	"path/filepath"
	"sync"
	"testing"
	"time"

	"github.com/jamespfennell/gtfs"
	"github.com/jamespfennell/gtfs/journal"
	"pgregory.net/rapid"

	"verifharness/rgen"
	"verifharness/sgen"
	"verifharness/vt"
)

// ---------------------------------------------------------------------------------------------
// C18: concurrent parsing is race-free and equals sequential parsing.
//
// Built with -race and run with GORACE=halt_on_error=1: a race report ends the process, the driver
// then reports the workload saved as "current case" as the replay file.

type CaseC18 struct {
	Zone    string
	Ext     ExtSpec
	RT      []*rgen.Msg
	Static  []*sgen.Feed
	Inherit bool
	// Inputs that the parsers reject (random bytes, truncated messages, archives with a zero-byte or garbage member): a call that
	// fails must fail the same way concurrently, and must not disturb the calls running next to it. Indexed after RT and Static.
	// Model[i] says that the reference model of the configured extension applies to RT[i] (a conflict-free message): the
	// concurrent results are then also compared with what the statement says the call returns - which is what it returns
	// running alone, whatever was parsed before or next to it.
	Model     []bool   `json:",omitempty"`
	BadRT     [][]byte `json:",omitempty"`
	BadStatic [][]byte `json:",omitempty"`
	// Plan[g] lists the inputs goroutine g parses, in order: index < len(RT) is a realtime message, otherwise static feed index-len(RT).
	Plan [][]int
	// Rounds is how many times each goroutine goes through its plan (0 = once): many short calls, so that calls overlap in
	// many different phases.
	Rounds int `json:",omitempty"`
}

var c18Rec = vt.NewRecorder("C18", "TestC18",
	"generated workloads: 2-4 inputs (realtime messages with elevator alerts / NYCT trips / plain, and static feeds; the byte buffers are shared), ONE shared options value per case for every bundled extension configuration "+
		"(Extension nil, explicit no-op, NYCT trips, NYCT alerts), 4-16 goroutines x 2-8 calls each in a generated assignment, started together; then a second phase in which every goroutine hashes trips and vehicles, walks Root() "+
		"normalises, and builds + exports a journal from results returned by OTHER goroutines. Oracle: built with the race detector (any report, 'concurrent map' fatal error or panic is a violation) and every call's normal form equals the sequential reference computed beforehand with fresh equivalent options. "+
		"Some inputs are ones the parsers reject (they must fail the same way concurrently and must not disturb their neighbours). Non-trivial = >=2 goroutines share the options value and an input touches extension state (elevator alerts, NYCT trips) or the nil-extension path")

func init() { registerReplay("C18", "TestC18", checkC18Replay) }

func saveCurrentCase(c CaseC18) {
	dir := os.Getenv("VERIF_CURRENT_CASE_DIR")
	if dir == "" {
		return
	}
	b, _ := jsonMarshal(vt.Envelope{Property: "C18", Test: "TestC18", Error: "process ended while this workload was running (race report / fatal error)", Case: mustJSON(c)})
	os.WriteFile(filepath.Join(dir, "C18-current-"+os.Getenv("VERIF_RUN_TAG")+".json"), b, 0o644)
}

func mustJSON(v any) []byte {
	b, err := jsonMarshal(v)
	if err != nil {
		return []byte("null")
	}
	return b
}

func checkC18Replay(c CaseC18) error {
	// schedule-dependent: run the workload many times
	for i := 0; i < 50; i++ {
		if err := checkC18(c); err != nil {
			return err
		}
	}
	return nil
}

func checkC18(c CaseC18) error {
	nIn := len(c.RT) + len(c.Static) + len(c.BadRT) + len(c.BadStatic)
	if nIn == 0 || len(c.Plan) == 0 {
		return vt.Failf("malformed case")
	}
	// realtime inputs first (good, then rejected), static inputs after them (good, then rejected)
	rtBytes := make([][]byte, 0, len(c.RT)+len(c.BadRT))
	for _, m := range c.RT {
		rtBytes = append(rtBytes, m.Marshal())
	}
	rtBytes = append(rtBytes, c.BadRT...)
	stBytes := make([][]byte, 0, len(c.Static)+len(c.BadStatic))
	for _, f := range c.Static {
		stBytes = append(stBytes, sgen.Render(f.Tables(), sgen.Canonical()))
	}
	stBytes = append(stBytes, c.BadStatic...)
	sopts := gtfs.ParseStaticOptions{InheritWheelchairBoarding: c.Inherit}
	shared := c.Ext.options(c.Zone) // one options value for every goroutine
	type result struct {
		input int
		rt    *gtfs.Realtime
		st    *gtfs.Static
		err   error
	}
	results := make([][]result, len(c.Plan))
	start := make(chan struct{})
	var wg sync.WaitGroup
	for g := range c.Plan {
		wg.Add(1)
		go func(g int) {
			defer wg.Done()
			<-start
			for round := 0; round < max(1, min(c.Rounds, 200)); round++ {
				for _, in := range c.Plan[g] {
					if in < 0 || in >= nIn {
						continue
					}
					if in < len(rtBytes) {
						r, err := gtfs.ParseRealtime(rtBytes[in], shared)
						results[g] = append(results[g], result{input: in, rt: r, err: err})
					} else {
						s, err := gtfs.ParseStatic(stBytes[in-len(rtBytes)], sopts)
						results[g] = append(results[g], result{input: in, st: s, err: err})
					}
				}
			}
		}(g)
	}
	close(start)
	wg.Wait()
	// sequential reference, fresh options per call - computed AFTER the concurrent phase so that it cannot
	// warm up any cache the library might keep (a cold cache is where unsynchronised writes happen)
	ref := make([]string, nIn)
	for i := range rtBytes {
		r, err := gtfs.ParseRealtime(rtBytes[i], c.Ext.options(c.Zone))
		if err != nil {
			if i < len(c.RT) {
				return vt.Failf("ParseRealtime rejected a well-formed message: %v", err)
			}
			ref[i] = "ERROR"
			continue
		}
		ref[i] = rgen.JS(rgen.Normalize(r))
	}
	for i := range stBytes {
		s, err := gtfs.ParseStatic(stBytes[i], sopts)
		if err != nil {
			if i < len(c.Static) {
				return vt.Failf("ParseStatic rejected a well-formed archive: %v", err)
			}
			ref[len(rtBytes)+i] = "ERROR"
			continue
		}
		ref[len(rtBytes)+i] = sgen.JS(sgen.Normalize(s))
	}
	// what each static call returns alone, by the reference model
	staticWant := make([]sgen.NStatic, len(c.Static))
	for i, f := range c.Static {
		staticWant[i] = sgen.Expect(f, sgen.Options{InheritWheelchairBoarding: c.Inherit}).SortedServices()
	}
	// phase 2: every goroutine reads, hashes and walks the results of the others
	errs := make([]error, len(c.Plan))
	start2 := make(chan struct{})
	for g := range c.Plan {
		wg.Add(1)
		go func(g int) {
			defer wg.Done()
			<-start2
			for other := range results {
				if other == g && len(c.Plan) > 1 {
					continue
				}
				if c.Rounds > 1 && other != (g+1)%len(c.Plan) {
					continue // many rounds: every result is still read by exactly one other goroutine
				}
				for _, res := range results[other] {
					if res.err != nil {
						if ref[res.input] != "ERROR" {
							errs[g] = vt.FailSig("concurrent-differs", "concurrent call on input %d failed although the same call succeeds alone: %v", res.input, res.err)
							return
						}
						continue
					}
					if ref[res.input] == "ERROR" {
						errs[g] = vt.FailSig("concurrent-differs", "concurrent call on input %d succeeded although the same call fails alone", res.input)
						return
					}
					var js string
					if res.rt != nil {
						for i := range res.rt.Trips {
							var h recordingHash
							res.rt.Trips[i].Hash(&h)
						}
						for i := range res.rt.Vehicles {
							var h recordingHash
							res.rt.Vehicles[i].Hash(&h)
						}
						js = rgen.JS(rgen.Normalize(res.rt))
					} else {
						for i := range res.st.Stops {
							res.st.Stops[i].Root()
						}
						js = sgen.JS(sgen.Normalize(res.st))
					}
					if res.rt != nil {
						// building and exporting a journal from a feed parsed by another goroutine only reads it
						// (and shares the package-level export templates)
						j := journal.BuildJournal(&sliceSource{feeds: []*gtfs.Realtime{res.rt, res.rt}}, time.Time{}, time.Unix(1<<60, 0))
						j.ExportToCsv()
					}
					if res.rt != nil && res.input < len(c.Model) && c.Model[res.input] {
						if err := c18Model(c, res.input, rgen.Normalize(res.rt)); err != nil {
							errs[g] = vt.FailSig("concurrent-differs-from-model", "extension %+v: input %d parsed concurrently (by goroutine %d) is not what the call returns alone: %v", c.Ext, res.input, other, err)
							return
						}
					}
					if res.st != nil {
						if si := res.input - len(rtBytes); si >= 0 && si < len(c.Static) {
							if d := sgen.Diff(sgen.ReconcileGaps(sgen.Normalize(res.st).SortedServices(), staticWant[si]), staticWant[si]); d != "" {
								errs[g] = vt.FailSig("concurrent-differs-from-model", "static input %d parsed concurrently (by goroutine %d) is not what the call returns alone: %s", res.input, other, d)
								return
							}
						}
					}
					if js != ref[res.input] {
						errs[g] = vt.FailSig("concurrent-differs", "extension %+v: input %d parsed concurrently (by goroutine %d) differs from the sequential parse: %s", c.Ext, res.input, other, rgen.FirstDiff(js, ref[res.input]))
						return
					}
				}
			}
		}(g)
	}
	close(start2)
	wg.Wait()
	for _, e := range errs {
		if e != nil {
			return e
		}
	}
	return nil
}

// c18Model compares a result for RT[i] with the reference model of the configured extension.
func c18Model(c CaseC18, i int, got rgen.NRealtime) error {
	return rtModel(c.Ext, c.Zone, c.RT[i], got)
}

// rtModel compares a result with the reference model of the configured extension (for conflict-free messages).
func rtModel(ext ExtSpec, zone string, m *rgen.Msg, got rgen.NRealtime) error {
	switch ext.Kind {
	case "nycttrips":
		return compareC16(got, CaseC16{Zone: zone, Msg: m, Opts: ext.Trips})
	case "nyctalerts":
		return compareC17(got, CaseC17{Zone: zone, Msg: m, Opts: ext.Alerts})
	default:
		return rgen.Compare(got, rgen.Expect(m, zone, rgen.ExpectOpts{}))
	}
}

// c18Zones are loadable zone names (the model computes the expected dates in the zone, so any of them will do).
var c18Zones = []string{"America/New_York", "America/Los_Angeles", "Asia/Tokyo", "Europe/London", "Europe/Paris", "Europe/Berlin", "Europe/Madrid", "Europe/Rome",
	"Europe/Vienna", "Europe/Zurich", "Europe/Oslo", "Europe/Stockholm", "Europe/Helsinki", "Europe/Warsaw", "Europe/Prague", "Europe/Budapest", "Europe/Athens",
	"Europe/Istanbul", "Europe/Moscow", "Europe/Lisbon", "Europe/Dublin", "Europe/Amsterdam", "Europe/Brussels", "Europe/Copenhagen", "America/Chicago",
	"America/Denver", "America/Phoenix", "America/Anchorage", "America/Toronto", "America/Vancouver", "America/Mexico_City", "America/Bogota", "America/Lima",
	"America/Halifax", "America/St_Johns", "America/Winnipeg",
	"Asia/Seoul", "Asia/Shanghai", "Asia/Hong_Kong", "Asia/Singapore", "Asia/Bangkok", "Asia/Jakarta", "Asia/Manila", "Asia/Kolkata", 
	"Asia/Dhaka", "Asia/Dubai", "Asia/Jerusalem", "Asia/Riyadh", "Asia/Tashkent", "Asia/Kathmandu", "Asia/Taipei", "Asia/Ho_Chi_Minh",
	"Australia/Sydney", "Australia/Melbourne", "Australia/Perth", "Australia/Adelaide", "Australia/Brisbane", "Pacific/Auckland", "Pacific/Honolulu",
	"Pacific/Fiji", "Africa/Johannesburg", "Africa/Lagos", "Africa/Nairobi", "Africa/Casablanca", "Atlantic/Reykjavik", "Pacific/Kiritimati"}

func genC18(t *rapid.T) (CaseC18, bool) {
	c06NoSizeClasses = true
	defer func() { c06NoSizeClasses = false }()
	zone := rapid.SampledFrom([]string{"", "America/New_York"}).Draw(t, "zone")
	c := CaseC18{Zone: zone, Ext: genExtSpec(t), Inherit: rapid.Bool().Draw(t, "inherit")}
	if rapid.IntRange(0, 3).Draw(t, "preferNyctTrips") == 0 {
		c.Ext = ExtSpec{Kind: "nycttrips", Trips: rgen.NyctTripsOpts{FilterStale: rapid.Bool().Draw(t, "filter2"), PreserveM: rapid.Bool().Draw(t, "preserveM2")}}
	}
	nRT := rapid.IntRange(1, 3).Draw(t, "nRealtime")
	if c.Ext.Kind == "nycttrips" {
		nRT = max(nRT, 2)
		if rapid.IntRange(0, 3).Draw(t, "filterStale") != 0 {
			c.Ext.Trips.FilterStale = true
		}
	}
	for i := 0; i < nRT; i++ {
		m, _, _, modelOK := genC06MsgModel(t, zone, c.Ext)
		c.RT = append(c.RT, m)
		c.Model = append(c.Model, modelOK)
	}
	if c.Ext.Kind == "nycttrips" && len(c.RT) >= 2 && rapid.Bool().Draw(t, "mixedHeaderTimestamps") {
		// one feed without a header timestamp next to feeds with one, and trips whose first stop time lies between: what the
		// stale filter decides for the feed without a timestamp must not depend on the feeds parsed next to it
		c.RT[0].Timestamp = nil
		c.RT[1].Timestamp = rgen.P(uint64(1_700_003_600))
		for i := range c.RT[0].Entities {
			if tu := c.RT[0].Entities[i].TU; tu != nil && tu.Trip.Nyct != nil && len(tu.STUs) > 0 && rapid.Bool().Draw(t, "firstStopBefore") {
				tu.STUs[0].Dep = &rgen.Event{Time: rgen.P(int64(1_700_000_000 + rapid.IntRange(-100, 100).Draw(t, "firstStopOffset")))}
			}
		}
	}
	nSt := rapid.IntRange(0, 3).Draw(t, "nStatic")
	staticHeavy := rapid.IntRange(0, 3).Draw(t, "staticHeavy") == 0 // mostly archives, in different agency time zones
	if staticHeavy {
		nSt = rapid.IntRange(2, 3).Draw(t, "nStaticHeavy")
	}
	for i := 0; i < nSt; i++ {
		o := sgen.DefaultGenOpts()
		o.MaxStops, o.MaxTrips, o.MaxStopTimes = 5, 3, 3
		o.MinServices = 1
		f, _ := sgen.GenFeed(t, o)
		if staticHeavy && len(f.Agencies) > 0 {
			// a zone drawn from a long list: most workloads then meet zone names this process has not loaded yet (whatever is
			// done once per name is done while the calls of this workload overlap)
			f.Agencies[0].TZ = rapid.SampledFrom(c18Zones).Draw(t, "staticZone")
		}
		c.Static = append(c.Static, f)
	}
	// rejected inputs
	for i := rapid.IntRange(0, 2).Draw(t, "nBadRT"); i > 0; i-- {
		c.BadRT = append(c.BadRT, rapid.SampledFrom([][]byte{{}, {0xff, 0xff, 0xff}, []byte("\x0a\x05\x0a\x031.0\x12\x03abc"), []byte("not a protobuf")}).Draw(t, "badRT"))
	}
	for i := rapid.IntRange(0, 2).Draw(t, "nBadStatic"); i > 0; i-- {
		o := sgen.DefaultGenOpts()
		o.MaxStops, o.MaxTrips, o.MaxStopTimes = 3, 2, 2
		f, _ := sgen.GenFeed(t, o)
		ts := f.Tables()
		var b []byte
		switch rapid.IntRange(0, 3).Draw(t, "badStaticKind") {
		case 0: // a zero-byte member
			which := ts[rapid.IntRange(0, len(ts)-1).Draw(t, "zeroMember")].Name
			cc := CaseC05Static{}
			for i := range ts {
				data := sgen.RenderCSV(&ts[i], sgen.FilePres{})
				if ts[i].Name == which {
					data = nil
				}
				cc.Members = append(cc.Members, struct {
					Name string
					Data []byte
				}{ts[i].Name, data})
			}
			b = c05BuildArchive(cc)
		case 1: // a member that is not CSV
			cc := CaseC05Static{}
			for i := range ts {
				data := sgen.RenderCSV(&ts[i], sgen.FilePres{})
				if i == 2 {
					data = []byte("stop_id\n\"unterminated")
				}
				cc.Members = append(cc.Members, struct {
					Name string
					Data []byte
				}{ts[i].Name, data})
			}
			b = c05BuildArchive(cc)
		case 2: // truncated archive
			full := sgen.Render(ts, sgen.Canonical())
			b = full[:len(full)/2]
		default:
			b = []byte("PK not a zip")
		}
		c.BadStatic = append(c.BadStatic, b)
	}
	nG := rapid.IntRange(4, 16).Draw(t, "goroutines")
	nIn := nRT + nSt + len(c.BadRT) + len(c.BadStatic)
	for g := 0; g < nG; g++ {
		calls := rapid.IntRange(2, 8).Draw(t, "calls")
		var plan []int
		for k := 0; k < calls; k++ {
			in := rapid.IntRange(0, nIn-1).Draw(t, "input")
			if staticHeavy && rapid.IntRange(0, 3).Draw(t, "staticCall") != 0 {
				in = len(c.RT) + len(c.BadRT) + rapid.IntRange(0, nSt-1).Draw(t, "staticInput")
			}
			if staticHeavy && k == 0 {
				in = len(c.RT) + len(c.BadRT) + g%nSt // every goroutine starts on an archive: several on the same one at once
			}
			plan = append(plan, in)
		}
		c.Plan = append(c.Plan, plan)
	}
	if staticHeavy {
		c.Rounds = rapid.SampledFrom([]int{1, 10, 25}).Draw(t, "rounds")
	}
	return c, c.Ext.Kind != "none"
}

func TestC18(t *testing.T) {
	rapid.Check(t, func(t *rapid.T) {
		c, touchesState := genC18(t)
		c18Rec.Eval("ext="+c.Ext.Kind, fmt.Sprintf("goroutines=%d", len(c.Plan)/4*4))
		if touchesState {
			c18Rec.NontrivialCase(vt.Fingerprint(c), func() any {
				return map[string]any{"ext": c.Ext, "goroutines": len(c.Plan), "plan": c.Plan, "realtime_inputs": len(c.RT), "static_inputs": len(c.Static)}
			})
		}
		saveCurrentCase(c)
		vt.Run(t, c18Rec, c, checkC18)
	})
}
