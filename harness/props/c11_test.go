package props

import (
	"fmt"
	"testing"

	"pgregory.net/rapid"

	"verifharness/sgen"
	"verifharness/vt"
)

// ---------------------------------------------------------------------------------------------
// C11: services merge calendar.txt and calendar_dates.txt correctly.

var c11Rec = vt.NewRecorder("C11", "TestC11",
	"feeds whose services are calendar-only, calendar_dates-only and combined (all three forced in every case), exception rows of type 1, 2 and ignored types (0, 3, 9), dates before / on the edges of / after the calendar range, ranges that end (start) at a night with a clock change in the agency zone whose only outside exception is the day across that night (23 or 25 hours away), "+
		"duplicated rows, shuffled row order, 1-3 agencies whose first zone is a DST zone, a fixed-offset zone, UTC or an unknown name. "+
		"Oracle: reference merge (one service per id with a valid calendar row or valid type-1/2 row; weekday flags; added/removed in file order; every date = civil midnight in the first agency's zone, UTC fallback; "+
		"start=min, end=max over range and type-1/2 dates) plus start <= each added/removed <= end and Trip.Service resolving to the service of that id. "+
		"Non-trivial = a service present in both files with a type-1/2 date outside its calendar range, or >=2 services with exception rows")

func init() { registerReplay("C11", "TestC11", checkC11) }

func checkC11(c CaseStatic) error {
	if c.Feed == nil {
		return vt.Failf("malformed case")
	}
	runStaticPrimers(c.Feed.Tables(), c.Primers, false)
	s, err := parseStatic(c.Feed.Tables(), c.Pres, false)
	if err != nil {
		if sgen.HasZeroByteMember(c.Feed.Tables(), c.Pres) {
			return nil // rejecting an archive with a zero-byte optional member is acceptable; accepting it must still give the right services
		}
		return vt.Failf("ParseStatic rejected a well-formed archive: %v", err)
	}
	want := sgen.Expect(c.Feed, sgen.Options{}).SortedServices()
	got := sgen.ReconcileGaps(sgen.Normalize(s).SortedServices(), want)
	if len(got.Services) != len(want.Services) {
		return vt.Failf("got %d services, want %d (one per service id with a valid calendar or type-1/2 row)\n got  %s\n want %s", len(got.Services), len(want.Services), sgen.JS(got.Services), sgen.JS(want.Services))
	}
	for i := range want.Services {
		if sgen.JS(got.Services[i]) != sgen.JS(want.Services[i]) {
			return vt.Failf("service differs:\n got  %s\n want %s", sgen.JS(got.Services[i]), sgen.JS(want.Services[i]))
		}
		g := got.Services[i]
		for _, d := range append(append([]sgen.NTime(nil), g.Added...), g.Removed...) {
			if d.Unix < g.Start.Unix || d.Unix > g.End.Unix {
				return vt.Failf("service %q: exception date %s outside [%s, %s]", g.Id, d.Civil, g.Start.Civil, g.End.Civil)
			}
		}
	}
	if len(got.Trips) != len(want.Trips) {
		return vt.Failf("got %d trips, want %d", len(got.Trips), len(want.Trips))
	}
	for i := range want.Trips {
		if got.Trips[i].Service != want.Trips[i].Service {
			return vt.Failf("Trips[%d] (%q) is bound to service %q, want %q", i, want.Trips[i].ID, got.Trips[i].Service, want.Trips[i].Service)
		}
	}
	if len(got.Defects) > 0 {
		return vt.Failf("reference defects: %v", got.Defects)
	}
	return nil
}

func c11Classify(f *sgen.Feed) (classes []string, nontrivial bool) {
	loc := sgen.FeedLocation(f)
	cal := map[string]sgen.CalendarRow{}
	for _, c := range f.Calendar {
		cal[c.ServiceID] = c
	}
	withEx := map[string]bool{}
	outside := false
	for _, d := range f.CalendarDates {
		if d.ExType != "1" && d.ExType != "2" {
			classes = append(classes, "ignored-exception-type")
			continue
		}
		withEx[d.ServiceID] = true
		if c, ok := cal[d.ServiceID]; ok {
			classes = append(classes, "service-in-both-files")
			if d.Date.Text() < c.Start.Text() {
				classes = append(classes, "exception-before-range")
				outside = true
			}
			if d.Date.Text() > c.End.Text() {
				classes = append(classes, "exception-after-range")
				outside = true
			}
		} else {
			classes = append(classes, "dates-only-service")
		}
	}
	switch loc.String() {
	case "UTC":
		classes = append(classes, "zone-utc-or-fallback")
	default:
		classes = append(classes, "zone-loaded")
	}
	return dedupe(classes), outside || len(withEx) >= 2
}

func TestC11(t *testing.T) { rapid.Check(t, propC11) }

func propC11(t *rapid.T) {
	o := sgen.DefaultGenOpts()
	o.ServiceMix, o.MinServices, o.MaxServices = true, 3, 5
	o.GapDays = true
	o.MaxStops, o.MaxShapes, o.MaxStopTimes, o.MaxFreq, o.MaxTransfers = 3, 0, 2, 0, 0
	if tierThorough() {
		o.MaxServices = 12
	}
	f, info := sgen.GenFeed(t, o)
	if rapid.IntRange(0, 5).Draw(t, "calendarOnly") == 0 {
		// services from calendar.txt alone: calendar_dates.txt has no rows (absent, header only, or a zero-byte member)
		f.CalendarDates = nil
		svc := map[string]bool{}
		for _, c := range f.Calendar {
			svc[c.ServiceID] = true
		}
		var trips []sgen.Trip
		dropped := map[string]bool{}
		for _, tr := range f.Trips {
			if svc[tr.ServiceID] {
				trips = append(trips, tr)
			} else {
				dropped[tr.ID] = true
			}
		}
		f.Trips = trips
		var sts []sgen.StopTime
		for _, st := range f.StopTimes {
			if !dropped[st.TripID] {
				sts = append(sts, st)
			}
		}
		f.StopTimes = sts
	}
	p := sgen.Canonical()
	if rapid.Bool().Draw(t, "present") {
		p, _ = sgen.GenPresentation(t, f.Tables())
	}
	c := CaseStatic{Feed: f, Pres: p}
	c.Env = genEnv(t)
	c.Primers = genStaticPrimers(t)
	classes, nt := c11Classify(f)
	if info.DSTEdges > 0 {
		classes = append(classes, "exception-one-day-outside-range-across-a-clock-change")
	}
	c11Rec.Eval(classes...)
	if info.MovedDates > 0 {
		c11Rec.Exclude("date without a unique local midnight moved to the next day")
	}
	if nt {
		c11Rec.NontrivialCase(vt.Fingerprint(c), func() any {
			return map[string]any{"agency_timezone": f.Agencies[0].TZ, "calendar": f.Calendar, "calendar_dates": f.CalendarDates}
		})
	}
	vt.Run(t, c11Rec, c, checkC11)
}

// TestC11Large: 9001 and 20003 services (every third one also in calendar.txt) with four exception rows each, the rows of
// calendar_dates.txt ordered by DATE so that the rows of one service lie thousands of rows apart.
func TestC11Large(t *testing.T) {
	for _, n := range []int{9001, 20003} {
		n := n
		t.Run(fmt.Sprint(n), func(outer *testing.T) {
			fail := ""
			defer func() {
				if fail != "" {
					outer.Fatalf("%s", fail)
				}
			}()
			rapid.Check(outer, func(t *rapid.T) {
				o := sgen.DefaultGenOpts()
				f, _ := sgen.GenFeed(t, o)
				f.Agencies[0].TZ = rapid.SampledFrom([]string{"America/New_York", "Europe/London", "UTC", "Asia/Tokyo"}).Draw(t, "zone")
				f.Calendar, f.CalendarDates = nil, nil
				for _, tr := range f.Trips {
					_ = tr
				}
				sid := func(i int) string { return fmt.Sprintf("svc%05d", i) }
				for i := 0; i < n; i++ {
					if i%3 == 0 {
						f.Calendar = append(f.Calendar, sgen.CalendarRow{ServiceID: sid(i), Days: [7]int{1, 1, 1, 1, 1, 0, 0}, Start: sgen.Date{Y: 2024, M: 2, D: 1}, End: sgen.Date{Y: 2024, M: 10, D: 28}})
					}
				}
				for k, d := range []sgen.Date{{Y: 2024, M: 1, D: 5}, {Y: 2024, M: 6, D: 15}, {Y: 2024, M: 6, D: 16}, {Y: 2024, M: 12, D: 24}} {
					for i := 0; i < n; i++ {
						f.CalendarDates = append(f.CalendarDates, sgen.CalDateRow{ServiceID: sid(i), Date: d, ExType: []string{"1", "2", "1", "2"}[(k+i)%4]})
					}
				}
				for i := range f.Trips {
					f.Trips[i].ServiceID = sid(i % n)
				}
				c := CaseStatic{Feed: f, Pres: sgen.Canonical()}
				c.Env = genEnv(t)
				c11Rec.Eval(fmt.Sprintf("large:services>=%d", n))
				c11Rec.NontrivialCase(vt.Fingerprint([]any{n, f.Agencies[0].TZ}), func() any {
					return map[string]any{"services": n, "calendar_dates_rows": len(f.CalendarDates), "order": "by date"}
				})
				if msg := vt.Try(c11Rec, c, checkC11); msg != "" && fail == "" {
					fail = msg
				}
			})
		})
	}
}
