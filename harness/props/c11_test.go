package props

import (
	"testing"

	"pgregory.net/rapid"

	"verifharness/sgen"
	"verifharness/vt"
)

// ---------------------------------------------------------------------------------------------
// C11: services merge calendar.txt and calendar_dates.txt correctly.

var c11Rec = vt.NewRecorder("C11", "TestC11",
	"feeds whose services are calendar-only, calendar_dates-only and combined (all three forced in every case), exception rows of type 1, 2 and ignored types (0, 3, 9), dates before / on the edges of / after the calendar range, "+
		"duplicated rows, shuffled row order, 1-3 agencies whose first zone is a DST zone, a fixed-offset zone, UTC or an unknown name. "+
		"Oracle: reference merge (one service per id with a valid calendar row or valid type-1/2 row; weekday flags; added/removed in file order; every date = civil midnight in the first agency's zone, UTC fallback; "+
		"start=min, end=max over range and type-1/2 dates) plus start <= each added/removed <= end and Trip.Service resolving to the service of that id. "+
		"Non-trivial = a service present in both files with a type-1/2 date outside its calendar range, or >=2 services with exception rows")

func init() { registerReplay("C11", "TestC11", checkC11) }

func checkC11(c CaseStatic) error {
	if c.Feed == nil {
		return vt.Failf("malformed case")
	}
	runStaticPrimers(c.Feed.Tables(), c.Primers, false)
	s, err := parseStatic(c.Feed.Tables(), c.Pres, false)
	if err != nil {
		if sgen.HasZeroByteMember(c.Feed.Tables(), c.Pres) {
			return nil // rejecting an archive with a zero-byte optional member is acceptable; accepting it must still give the right services
		}
		return vt.Failf("ParseStatic rejected a well-formed archive: %v", err)
	}
	want := sgen.Expect(c.Feed, sgen.Options{}).SortedServices()
	got := sgen.ReconcileGaps(sgen.Normalize(s).SortedServices(), want)
	if len(got.Services) != len(want.Services) {
		return vt.Failf("got %d services, want %d (one per service id with a valid calendar or type-1/2 row)\n got  %s\n want %s", len(got.Services), len(want.Services), sgen.JS(got.Services), sgen.JS(want.Services))
	}
	for i := range want.Services {
		if sgen.JS(got.Services[i]) != sgen.JS(want.Services[i]) {
			return vt.Failf("service differs:\n got  %s\n want %s", sgen.JS(got.Services[i]), sgen.JS(want.Services[i]))
		}
		g := got.Services[i]
		for _, d := range append(append([]sgen.NTime(nil), g.Added...), g.Removed...) {
			if d.Unix < g.Start.Unix || d.Unix > g.End.Unix {
				return vt.Failf("service %q: exception date %s outside [%s, %s]", g.Id, d.Civil, g.Start.Civil, g.End.Civil)
			}
		}
	}
	if len(got.Trips) != len(want.Trips) {
		return vt.Failf("got %d trips, want %d", len(got.Trips), len(want.Trips))
	}
	for i := range want.Trips {
		if got.Trips[i].Service != want.Trips[i].Service {
			return vt.Failf("Trips[%d] (%q) is bound to service %q, want %q", i, want.Trips[i].ID, got.Trips[i].Service, want.Trips[i].Service)
		}
	}
	if len(got.Defects) > 0 {
		return vt.Failf("reference defects: %v", got.Defects)
	}
	return nil
}

func c11Classify(f *sgen.Feed) (classes []string, nontrivial bool) {
	loc := sgen.FeedLocation(f)
	cal := map[string]sgen.CalendarRow{}
	for _, c := range f.Calendar {
		cal[c.ServiceID] = c
	}
	withEx := map[string]bool{}
	outside := false
	for _, d := range f.CalendarDates {
		if d.ExType != "1" && d.ExType != "2" {
			classes = append(classes, "ignored-exception-type")
			continue
		}
		withEx[d.ServiceID] = true
		if c, ok := cal[d.ServiceID]; ok {
			classes = append(classes, "service-in-both-files")
			if d.Date.Text() < c.Start.Text() {
				classes = append(classes, "exception-before-range")
				outside = true
			}
			if d.Date.Text() > c.End.Text() {
				classes = append(classes, "exception-after-range")
				outside = true
			}
		} else {
			classes = append(classes, "dates-only-service")
		}
	}
	switch loc.String() {
	case "UTC":
		classes = append(classes, "zone-utc-or-fallback")
	default:
		classes = append(classes, "zone-loaded")
	}
	return dedupe(classes), outside || len(withEx) >= 2
}

func TestC11(t *testing.T) { rapid.Check(t, propC11) }

func propC11(t *rapid.T) {
	o := sgen.DefaultGenOpts()
	o.ServiceMix, o.MinServices, o.MaxServices = true, 3, 5
	o.GapDays = true
	o.MaxStops, o.MaxShapes, o.MaxStopTimes, o.MaxFreq, o.MaxTransfers = 3, 0, 2, 0, 0
	if tierThorough() {
		o.MaxServices = 12
	}
	f, info := sgen.GenFeed(t, o)
	if rapid.IntRange(0, 5).Draw(t, "calendarOnly") == 0 {
		// services from calendar.txt alone: calendar_dates.txt has no rows (absent, header only, or a zero-byte member)
		f.CalendarDates = nil
		svc := map[string]bool{}
		for _, c := range f.Calendar {
			svc[c.ServiceID] = true
		}
		var trips []sgen.Trip
		dropped := map[string]bool{}
		for _, tr := range f.Trips {
			if svc[tr.ServiceID] {
				trips = append(trips, tr)
			} else {
				dropped[tr.ID] = true
			}
		}
		f.Trips = trips
		var sts []sgen.StopTime
		for _, st := range f.StopTimes {
			if !dropped[st.TripID] {
				sts = append(sts, st)
			}
		}
		f.StopTimes = sts
	}
	p := sgen.Canonical()
	if rapid.Bool().Draw(t, "present") {
		p, _ = sgen.GenPresentation(t, f.Tables())
	}
	c := CaseStatic{Feed: f, Pres: p}
	c.Env = genEnv(t)
	c.Primers = genStaticPrimers(t)
	classes, nt := c11Classify(f)
	c11Rec.Eval(classes...)
	if info.MovedDates > 0 {
		c11Rec.Exclude("date without a unique local midnight moved to the next day")
	}
	if nt {
		c11Rec.NontrivialCase(vt.Fingerprint(c), func() any {
			return map[string]any{"agency_timezone": f.Agencies[0].TZ, "calendar": f.Calendar, "calendar_dates": f.CalendarDates}
		})
	}
	vt.Run(t, c11Rec, c, checkC11)
}
