package props

import "encoding/json"

func jsonMarshal(v any) ([]byte, error)   { return json.Marshal(v) }
func jsonUnmarshal(b []byte, v any) error { return json.Unmarshal(b, v) }

func ptr[T any](v T) *T { return &v }
