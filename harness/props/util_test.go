package props

import (
	"encoding/json"
	"os"

	"github.com/jamespfennell/gtfs/extensions"
	"pgregory.net/rapid"

	"verifharness/vt"
)

func jsonMarshal(v any) ([]byte, error)   { return json.Marshal(v) }
func jsonUnmarshal(b []byte, v any) error { return json.Unmarshal(b, v) }

func ptr[T any](v T) *T { return &v }

func tierThorough() bool { return os.Getenv("VERIF_TIER") == "thorough" }

func noExtension() extensions.Extension { return extensions.NoExtension() }

// genEnv draws the process environment of a case: one time in four the process time zone is something else than
// the process's own - a zone whose NAME coincides with a configured zone or with an abbreviation, at another offset.
func genEnv(t *rapid.T) vt.Env {
	if rapid.IntRange(0, 3).Draw(t, "env?") != 0 {
		return vt.Env{}
	}
	e := vt.Env{Local: rapid.SampledFrom(vt.Locals).Draw(t, "processZone")}
	if rapid.IntRange(0, 2).Draw(t, "procs?") == 0 {
		// another number of processors than the machine's: 1 (no parallel path), small odd numbers (remainders)
		e.Procs = rapid.SampledFrom([]int{1, 2, 3, 5, 7}).Draw(t, "GOMAXPROCS")
		if rapid.Bool().Draw(t, "procsOnly") {
			e.Local = ""
		}
	}
	return e
}
