package props

import (
	"encoding/json"
	"os"

	"github.com/jamespfennell/gtfs/extensions"
)

func jsonMarshal(v any) ([]byte, error)   { return json.Marshal(v) }
func jsonUnmarshal(b []byte, v any) error { return json.Unmarshal(b, v) }

func ptr[T any](v T) *T { return &v }

func tierThorough() bool { return os.Getenv("VERIF_TIER") == "thorough" }

func noExtension() extensions.Extension { return extensions.NoExtension() }
