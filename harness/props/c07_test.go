package props

import (
	"fmt"
	"sort"
	"testing"
	"time"

	"github.com/jamespfennell/gtfs"
	"pgregory.net/rapid"

	"verifharness/rgen"
	"verifharness/vt"
)

// ---------------------------------------------------------------------------------------------
// C07: realtime entities merge order-independently into unique, sorted trips/vehicles.

type CaseC07Perm struct {
	vt.Env
	Zone    string
	Msg     *rgen.Msg
	Perm    []int    // entity i of the permuted message is entity Perm[i] of Msg
	Primers []Primer `json:",omitempty"` // earlier unrelated calls, repeated before each of the two parses
	// Ext, when its Kind is "nycttrips", parses both orders with that extension (entities it filters out or rewrites must not
	// make the order matter either); the reference model is then the NYCT one.
	Ext ExtSpec
}

var c07PermRec = vt.NewRecorder("C07", "TestC07Perm",
	"conflict-free messages in which trips/vehicles are both self-described and referenced (from vehicle positions, trip updates, alerts) x a permutation of the entities "+
		"(every one of the n! for n<=4 is checked per case, otherwise 6 generated ones). Oracle (metamorphic): permuted message => same Trips in the same order, same Vehicles as a multiset with the same links, "+
		"Alerts in their permuted relative order; plus agreement with the reference model (own-entity data wins wherever the own entity sits). "+
		"Non-trivial = >=1 trip or vehicle mentioned >=2 times and a non-identity permutation")

var c07AnyRec = vt.NewRecorder("C07", "TestC07Any",
	"arbitrary messages, including conflicting duplicates (same trip or vehicle described twice with different bodies, vehicles shared between trips, empty vehicle descriptors). "+
		"Oracle (invariant): no two Trips with the same identifier, Trips sorted (adjacent pairs not decreasing under TripID.Less, primary key ID.ID non-decreasing), "+
		"no two Vehicles with the same non-empty identifier. Non-trivial = message has a duplicated trip or vehicle and >=2 trips in the result")

var c07LessRec = vt.NewRecorder("C07", "TestC07Less",
	"triples of canonical trip identifiers over a small domain; TripID.Less must be irreflexive, asymmetric, transitive and total on distinct identifiers")

func init() {
	registerReplay("C07", "TestC07Perm", checkC07Perm)
	registerReplay("C07", "TestC07Any", checkC07Any)
	registerReplay("C07", "TestC07Less", checkC07Less)
}

func permuteMsg(m *rgen.Msg, perm []int) *rgen.Msg {
	out := &rgen.Msg{Timestamp: m.Timestamp, Incrementality: m.Incrementality}
	for _, p := range perm {
		out.Entities = append(out.Entities, m.Entities[p])
	}
	return out
}

func vehicleMultiset(n rgen.NRealtime) []string {
	var out []string
	for _, v := range n.Vehicles {
		out = append(out, rgen.JS(v))
	}
	sort.Strings(out)
	return out
}

func checkC07Perm(c CaseC07Perm) error {
	if c.Msg == nil || len(c.Perm) != len(c.Msg.Entities) {
		return vt.Failf("malformed case")
	}
	seen := map[int]bool{}
	for _, p := range c.Perm {
		if p < 0 || p >= len(c.Perm) || seen[p] {
			return vt.Failf("malformed case: not a permutation")
		}
		seen[p] = true
	}
	var ext func() *gtfs.ParseRealtimeOptions
	if c.Ext.Kind == "nycttrips" {
		ext = func() *gtfs.ParseRealtimeOptions { return c.Ext.options(c.Zone) }
	}
	base, err := parseRT(CaseRT{Zone: c.Zone, Msg: c.Msg, Primers: c.Primers}, ext)
	if err != nil {
		return vt.Failf("ParseRealtime rejected a well-formed message: %v", err)
	}
	nb := rgen.Normalize(base)
	want := rgen.Expect(c.Msg, c.Zone, rgen.ExpectOpts{})
	if ext != nil {
		model, _ := rgen.ApplyNyctTrips(c.Msg, c.Ext.Trips)
		want = rgen.Expect(model, c.Zone, rgen.ExpectOpts{Track: rgen.NyctTrack})
	}
	if err := rgen.Compare(nb, want); err != nil {
		return vt.Failf("original order: %v", err)
	}
	pm := permuteMsg(c.Msg, c.Perm)
	pr, err := parseRT(CaseRT{Zone: c.Zone, Msg: pm, Primers: c.Primers}, ext)
	if err != nil {
		return vt.Failf("ParseRealtime rejected the permuted message: %v", err)
	}
	np := rgen.Normalize(pr)
	if rgen.JS(nb.Trips) != rgen.JS(np.Trips) {
		return vt.Failf("Trips differ after permuting the entities by %v:\n original %s\n permuted %s", c.Perm, rgen.JS(nb.Trips), rgen.JS(np.Trips))
	}
	a, b := vehicleMultiset(nb), vehicleMultiset(np)
	if fmt.Sprint(a) != fmt.Sprint(b) {
		return vt.Failf("Vehicles differ after permuting the entities by %v:\n original %v\n permuted %v", c.Perm, a, b)
	}
	// alerts keep their relative feed order: alert k of the permuted message is the alert of entity Perm[...]
	alertIdx := map[int]int{} // entity index -> alert index in the original result
	k := 0
	for i := range c.Msg.Entities {
		if c.Msg.Entities[i].AL != nil {
			alertIdx[i] = k
			k++
		}
	}
	var wantAlerts []rgen.NAlert
	for _, p := range c.Perm {
		if ai, ok := alertIdx[p]; ok {
			wantAlerts = append(wantAlerts, nb.Alerts[ai])
		}
	}
	if len(wantAlerts) != len(np.Alerts) {
		return vt.Failf("permuted message yields %d alerts, original %d", len(np.Alerts), len(wantAlerts))
	}
	for i := range wantAlerts {
		if err := rgen.CompareAlert(np.Alerts[i], want.Alerts[alertIdx[c.Perm[alertPos(c, i)]]]); err != nil {
			return vt.Failf("permuted message, alert %d: %v", i, err)
		}
		// informed entities derived from selectors must be identical; route-level fallback entities as a set
		if !sameAlertModuloFallbackOrder(np.Alerts[i], wantAlerts[i]) {
			return vt.Failf("alert %d differs after permutation:\n original %s\n permuted %s", i, rgen.JS(wantAlerts[i]), rgen.JS(np.Alerts[i]))
		}
	}
	return nil
}

// alertPos returns the position in c.Perm of the i-th alert entity of the permuted message.
func alertPos(c CaseC07Perm, i int) int {
	k := 0
	for pos, p := range c.Perm {
		if c.Msg.Entities[p].AL != nil {
			if k == i {
				return pos
			}
			k++
		}
	}
	return -1
}

func sameAlertModuloFallbackOrder(a, b rgen.NAlert) bool {
	sa, sb := []string{}, []string{}
	for _, e := range a.Informed {
		sa = append(sa, rgen.JS(e))
	}
	for _, e := range b.Informed {
		sb = append(sb, rgen.JS(e))
	}
	sort.Strings(sa)
	sort.Strings(sb)
	a.Informed, b.Informed = nil, nil
	return fmt.Sprint(sa) == fmt.Sprint(sb) && rgen.JS(a) == rgen.JS(b)
}

func TestC07Perm(t *testing.T) {
	rapid.Check(t, func(t *rapid.T) {
		zone := rapid.SampledFrom([]string{"", "Europe/London"}).Draw(t, "zone")
		o := rgen.DefaultGenOpts(zone)
		o.NoPartialDescriptors = true
		o.MaxSTU, o.MaxAlerts, o.MaxSelectors = 2, 2, 3
		if tierThorough() {
			o.MaxTrips, o.MaxVehicles = 8, 6
		}
		m, info := rgen.GenMsg(t, o)
		primers := genPrimers(t, zone, m)
		env := genEnv(t)
		n := len(m.Entities)
		var perms [][]int
		if n <= 4 {
			perms = permutations(n)
		} else {
			for i := 0; i < 6; i++ {
				perms = append(perms, rapid.Permutation(seqInts(n)).Draw(t, "perm"))
			}
			rev := make([]int, n)
			for i := range rev {
				rev[i] = n - 1 - i
			}
			perms = append(perms, rev)
		}
		for _, p := range perms {
			c := CaseC07Perm{Zone: zone, Msg: m, Perm: p, Primers: primers}
			c.Env = env
			identity := true
			for i, x := range p {
				if i != x {
					identity = false
				}
			}
			cls := "single-mention"
			if info.MultiMention > 0 {
				cls = "multi-mention"
			}
			if len(primers) > 0 {
				c07PermRec.Class("after-earlier-calls")
			}
			c07PermRec.Eval(cls)
			if info.MultiMention > 0 && !identity {
				c07PermRec.NontrivialCase(vt.Fingerprint(c), func() any { return c })
			}
			vt.Run(t, c07PermRec, c, checkC07Perm)
		}
	})
}

// TestC07PermNyct: the same relation for feeds parsed with the NYCT trips extension, which filters out stale trip updates and
// derives vehicles from train ids - a trip update that is dropped, and the entities that still refer to its trip, in every order.
func TestC07PermNyct(t *testing.T) {
	rapid.Check(t, func(t *rapid.T) {
		zone := rapid.SampledFrom([]string{"", "America/New_York"}).Draw(t, "zone")
		m, nN, _, _ := genNyctMsg(t, zone)
		ext := ExtSpec{Kind: "nycttrips", Trips: rgen.NyctTripsOpts{FilterStale: rapid.IntRange(0, 3).Draw(t, "filter") != 0, PreserveM: rapid.Bool().Draw(t, "preserveM")}}
		_, dropped := rgen.ApplyNyctTrips(m, ext.Trips)
		n := len(m.Entities)
		var perms [][]int
		if n <= 3 {
			perms = permutations(n)
		} else {
			for i := 0; i < 4; i++ {
				perms = append(perms, rapid.Permutation(seqInts(n)).Draw(t, "perm"))
			}
			rev := make([]int, n)
			for i := range rev {
				rev[i] = n - 1 - i
			}
			perms = append(perms, rev)
		}
		env := genEnv(t)
		for _, p := range perms {
			c := CaseC07Perm{Zone: zone, Msg: m, Perm: p, Ext: ext}
			c.Env = env
			cls := "nyct:no-trip-filtered"
			if dropped > 0 {
				cls = "nyct:stale-trip-filtered"
			}
			c07PermRec.Eval(cls)
			if nN >= 1 && n >= 2 {
				c07PermRec.NontrivialCase(vt.Fingerprint(c), func() any { return c })
			}
			vt.Run(t, c07PermRec, c, checkC07Perm)
		}
	})
}

func seqInts(n int) []int {
	s := make([]int, n)
	for i := range s {
		s[i] = i
	}
	return s
}

// ---- any message: uniqueness and sortedness

func checkC07Any(c CaseRT) error {
	if c.Msg == nil {
		return vt.Failf("malformed case")
	}
	r, err := parseRT(c, nil)
	if err != nil {
		return nil // rejected messages are not this property's business
	}
	seen := map[string]int{}
	for i := range r.Trips {
		k := rgen.Normalize1Trip(&r.Trips[i]).ID.Key()
		if j, dup := seen[k]; dup {
			return vt.Failf("Trips[%d] and Trips[%d] carry the same identifier %s", j, i, k)
		}
		seen[k] = i
	}
	for i := 0; i+1 < len(r.Trips); i++ {
		a, b := r.Trips[i].ID, r.Trips[i+1].ID
		if b.Less(a) {
			return vt.Failf("Trips not sorted: Trips[%d]=%s sorts after Trips[%d]=%s", i, rgen.JS(rgen.Normalize1Trip(&r.Trips[i]).ID), i+1, rgen.JS(rgen.Normalize1Trip(&r.Trips[i+1]).ID))
		}
		if a.ID > b.ID {
			return vt.Failf("Trips not sorted by trip id: %q before %q", a.ID, b.ID)
		}
	}
	vseen := map[gtfs.VehicleID]int{}
	for i := range r.Vehicles {
		id := r.Vehicles[i].ID
		if id == nil || *id == (gtfs.VehicleID{}) {
			continue
		}
		if j, dup := vseen[*id]; dup {
			return vt.Failf("Vehicles[%d] and Vehicles[%d] carry the same identifier %+v", j, i, *id)
		}
		vseen[*id] = i
	}
	return nil
}

// genAnyMsg starts from a conflict-free message and adds conflicting duplicates.
func genAnyMsg(t *rapid.T, zone string) (*rgen.Msg, bool) {
	o := rgen.DefaultGenOpts(zone)
	o.MaxSTU, o.MaxAlerts = 2, 2
	m, _ := rgen.GenMsg(t, o)
	dup := false
	k := rapid.IntRange(0, 4).Draw(t, "nConflicts")
	for i := 0; i < k && len(m.Entities) > 0; i++ {
		src := m.Entities[rapid.IntRange(0, len(m.Entities)-1).Draw(t, "dupSrc")]
		e := rgen.Entity{ID: fmt.Sprintf("d%d", i)}
		switch {
		case src.TU != nil:
			tu := *src.TU
			tu.STUs = nil
			for j := rapid.IntRange(0, 2).Draw(t, "dupSTUs"); j > 0; j-- {
				tu.STUs = append(tu.STUs, rgen.GenSTU(t))
			}
			switch rapid.IntRange(0, 3).Draw(t, "dupVeh") {
			case 0:
				tu.Vehicle = nil
			case 1:
				v := rgen.GenVehDesc(t, rapid.IntRange(0, 3).Draw(t, "dupVehIdx"))
				tu.Vehicle = &v
			case 2:
				tu.Vehicle = &rgen.VehDesc{} // empty descriptor
			}
			e.TU = &tu
			dup = true
		case src.VP != nil:
			vp := *src.VP
			vp.StopID = rgen.P("dup")
			if rapid.Bool().Draw(t, "dupVPTrip") && len(m.Entities) > 0 {
				other := m.Entities[rapid.IntRange(0, len(m.Entities)-1).Draw(t, "dupOther")]
				if other.TU != nil {
					d := other.TU.Trip
					vp.Trip = &d
				}
			}
			e.VP = &vp
			dup = dup || vp.Vehicle != nil
		default:
			al := *src.AL
			e.AL = &al
		}
		pos := rapid.IntRange(0, len(m.Entities)).Draw(t, "dupPos")
		m.Entities = append(m.Entities[:pos], append([]rgen.Entity{e}, m.Entities[pos:]...)...)
	}
	if rapid.IntRange(0, 3).Draw(t, "contestedVehicle") == 0 {
		// one vehicle claimed by two or three trip updates and, in its own position, naming yet another trip that has no
		// update of its own - in a generated order
		v := rgen.VehDesc{ID: rgen.P("contested")}
		var es []rgen.Entity
		for i := rapid.IntRange(2, 3).Draw(t, "claimants"); i > 0; i-- {
			vv := v
			es = append(es, rgen.Entity{ID: fmt.Sprintf("claim%d", i), TU: &rgen.TripUpdate{Trip: rgen.TripDesc{TripID: rgen.P(fmt.Sprintf("claimant-%d", i))}, Vehicle: &vv}})
		}
		vv := v
		vp := rgen.Entity{ID: "contested-position", VP: &rgen.VehiclePos{Vehicle: &vv, Trip: &rgen.TripDesc{TripID: rgen.P("claimant-position-only")}, StopID: rgen.P("S1")}}
		if rapid.Bool().Draw(t, "positionLast") {
			es = append(es, vp)
		} else {
			pos := rapid.IntRange(0, len(es)).Draw(t, "positionAt")
			es = append(es[:pos], append([]rgen.Entity{vp}, es[pos:]...)...)
		}
		pos := rapid.IntRange(0, len(m.Entities)).Draw(t, "contestedAt")
		m.Entities = append(m.Entities[:pos], append(es, m.Entities[pos:]...)...)
		dup = true
	}
	return m, dup
}

func TestC07Any(t *testing.T) {
	rapid.Check(t, func(t *rapid.T) {
		zone := rapid.SampledFrom([]string{"", "America/New_York"}).Draw(t, "zone")
		m, dup := genAnyMsg(t, zone)
		c := CaseRT{Zone: zone, Msg: m, Primers: genPrimers(t, zone, m)}
		c.Env = genEnv(t)
		cls := "no-duplicate"
		if dup {
			cls = "conflicting-duplicate"
		}
		c07AnyRec.Eval(cls)
		if dup && len(m.Entities) >= 3 {
			c07AnyRec.NontrivialCase(vt.Fingerprint(c), func() any { return c })
		}
		vt.Run(t, c07AnyRec, c, checkC07Any)
	})
}

// ---- TripID.Less is a strict total order on canonical identifiers

type C07ID struct {
	ID, RouteID  string
	Dir          uint8
	HasStartTime bool
	StartTime    int64
	HasStartDate bool
	StartDate    int64
	SchedRel     int32
}

type CaseC07Less struct{ A, B, C C07ID }

func (x C07ID) build() gtfs.TripID {
	id := gtfs.TripID{ID: x.ID, RouteID: x.RouteID, DirectionID: gtfs.DirectionID(x.Dir), HasStartTime: x.HasStartTime, HasStartDate: x.HasStartDate,
		ScheduleRelationship: gtfs.TripScheduleRelationship(x.SchedRel)}
	if x.HasStartTime {
		id.StartTime = time.Duration(x.StartTime) * time.Second
	}
	if x.HasStartDate {
		id.StartDate = time.Unix(x.StartDate, 0).UTC()
	}
	return id
}

func (x C07ID) canon() C07ID {
	if !x.HasStartTime {
		x.StartTime = 0
	}
	if !x.HasStartDate {
		x.StartDate = 0
	}
	return x
}

func genC07ID(t *rapid.T, l string) C07ID {
	return C07ID{ID: rapid.SampledFrom([]string{"", "a", "b"}).Draw(t, l+"id"), RouteID: rapid.SampledFrom([]string{"", "r", "s"}).Draw(t, l+"route"),
		Dir: uint8(rapid.IntRange(0, 2).Draw(t, l+"dir")), HasStartTime: rapid.Bool().Draw(t, l+"hasTime"), StartTime: rapid.Int64Range(0, 2).Draw(t, l+"time"),
		HasStartDate: rapid.Bool().Draw(t, l+"hasDate"), StartDate: rapid.SampledFrom([]int64{0, 86400, 172800}).Draw(t, l+"date"),
		SchedRel: rapid.SampledFrom([]int32{0, 1, 3}).Draw(t, l+"rel")}.canon()
}

func checkC07Less(c CaseC07Less) error {
	a, b, d := c.A.canon().build(), c.B.canon().build(), c.C.canon().build()
	if a.Less(a) {
		return vt.Failf("Less is not irreflexive on %+v", c.A)
	}
	if a.Less(b) && b.Less(a) {
		return vt.Failf("Less is not asymmetric on %+v, %+v", c.A, c.B)
	}
	if c.A.canon() != c.B.canon() && !a.Less(b) && !b.Less(a) {
		return vt.Failf("Less does not order the distinct identifiers %+v and %+v", c.A, c.B)
	}
	if a.Less(b) && b.Less(d) && !a.Less(d) {
		return vt.Failf("Less is not transitive on %+v < %+v < %+v", c.A, c.B, c.C)
	}
	return nil
}

func TestC07Less(t *testing.T) {
	rapid.Check(t, func(t *rapid.T) {
		c := CaseC07Less{A: genC07ID(t, "a"), B: genC07ID(t, "b"), C: genC07ID(t, "c")}
		if rapid.Bool().Draw(t, "nearCopy") { // make near-equal pairs common
			c.B = c.A
			switch rapid.IntRange(0, 6).Draw(t, "tweak") {
			case 0:
				c.B.RouteID += "x"
			case 1:
				c.B.Dir = (c.B.Dir + 1) % 3
			case 2:
				c.B.HasStartTime, c.B.StartTime = !c.B.HasStartTime, 1
			case 3:
				c.B.HasStartDate, c.B.StartDate = !c.B.HasStartDate, 86400
			case 4:
				c.B.SchedRel++
			case 5:
				if c.B.HasStartDate {
					c.B.StartDate += 86400
				}
			}
			c.B = c.B.canon()
		}
		c07LessRec.Eval()
		if c.A != c.B && c.B != c.C {
			c07LessRec.NontrivialCase(vt.Fingerprint(c), func() any { return c })
		}
		vt.Run(t, c07LessRec, c, checkC07Less)
	})
}

// TestC07Large: 9000 / 70000 trips and vehicles (and one update of 20000 stop time updates) in reversed and in rotated entity order.
func TestC07Large(t *testing.T) {
	largeRT(t, c07PermRec, [][2]int{{0, 9000}, {0, 30000}, {0, 100000}, {1, 20000}}, func(t *rapid.T, zone string, m *rgen.Msg) CaseC07Perm {
		n := len(m.Entities)
		perm := make([]int, n)
		rot := rapid.IntRange(0, max(0, n-1)).Draw(t, "rotateBy")
		rev := rapid.Bool().Draw(t, "reversed")
		for i := range perm {
			if rev {
				perm[i] = n - 1 - i
			} else {
				perm[i] = (i + rot) % n
			}
		}
		c := CaseC07Perm{Zone: zone, Msg: m, Perm: perm}
		c.Env = genEnv(t)
		return c
	}, checkC07Perm)
}
