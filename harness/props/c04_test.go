package props

import (
	"fmt"
	"os"
	"strconv"
	"testing"

	"pgregory.net/rapid"

	"verifharness/rgen"
	"verifharness/vt"
)

// ---------------------------------------------------------------------------------------------
// C04: trips and vehicles associated in a feed point at each other.

var c04Rec = vt.NewRecorder("C04", "TestC04",
	"conflict-free messages built from association patterns: each trip<->vehicle pair expressed by {trip update carries the vehicle, vehicle position carries the trip, both} "+
		"x vehicle identity {id, label only, plate only, no descriptor at all} x generated entity order, plus unassociated trips/vehicles and alerts. "+
		"Oracle: reference association model; both references set, content equal to the top-level entries, Trip.Vehicle.Trip and Vehicle.Trip.Vehicle lead back; nil when unassociated. "+
		"Non-trivial = >=2 entities and >=1 association expressed from the vehicle side or with an id-less / label- or plate-only vehicle")

var c04PatRec = vt.NewRecorder("C04", "TestC04Patterns",
	"exhaustive table: expression {TU, VP, both} x identity {id, label-only, plate-only, none(VP only)} x optional unassociated extra trip and vehicle x every permutation of the (<=4) entities")

func init() {
	registerReplay("C04", "TestC04", checkC04)
	registerReplay("C04", "TestC04Patterns", checkC04)
}

func checkC04(c CaseRT) error {
	if c.Msg == nil {
		return vt.Failf("malformed case")
	}
	r, err := parseRT(c, nil)
	if err != nil {
		return vt.Failf("ParseRealtime rejected a well-formed message: %v", err)
	}
	got := rgen.Normalize(r)
	want := rgen.Expect(c.Msg, c.Zone, rgen.ExpectOpts{})
	if err := rgen.CompareLinks(got, want); err != nil {
		return vt.Failf("%v", err)
	}
	// the reached objects must have the same content as the top-level entries: re-check directly on
	// the library structs, independent of the normal form's BackRef bookkeeping
	vehSet, tripSet := map[string]bool{}, map[string]bool{}
	for j := range r.Vehicles {
		vehSet[rgen.JS(rgen.Normalize1Vehicle(&r.Vehicles[j]))] = true
	}
	for i := range r.Trips {
		tripSet[rgen.JS(rgen.Normalize1Trip(&r.Trips[i]))] = true
	}
	for i := range r.Trips {
		if t := &r.Trips[i]; t.Vehicle != nil && !vehSet[rgen.JS(rgen.Normalize1Vehicle(t.Vehicle))] {
			return vt.Failf("Trips[%d].Vehicle has content that matches no entry of Vehicles: %s", i, rgen.JS(rgen.Normalize1Vehicle(t.Vehicle)))
		}
	}
	for j := range r.Vehicles {
		if v := &r.Vehicles[j]; v.Trip != nil && !tripSet[rgen.JS(rgen.Normalize1Trip(v.Trip))] {
			return vt.Failf("Vehicles[%d].Trip has content that matches no entry of Trips: %s", j, rgen.JS(rgen.Normalize1Trip(v.Trip)))
		}
	}
	return nil
}

func TestC04(t *testing.T) {
	rapid.Check(t, func(t *rapid.T) {
		zone := rapid.SampledFrom([]string{"", "America/New_York"}).Draw(t, "zone")
		o := rgen.DefaultGenOpts(zone)
		o.NoPartialDescriptors = true
		o.MaxAlerts, o.MaxSTU, o.MaxIdless = 1, 2, 3
		if tierThorough() {
			o.MaxTrips, o.MaxVehicles, o.MaxIdless = 9, 6, 4
		}
		m, info := rgen.GenMsg(t, o)
		c := CaseRT{Zone: zone, Msg: m, Primers: genPrimers(t, zone, m)}
		c.Env = genEnv(t)
		var cls []string
		if len(c.Primers) > 0 {
			cls = append(cls, "after-earlier-calls")
		}
		if info.AssocTU > 0 {
			cls = append(cls, "assoc-by-trip-update")
		}
		if info.AssocVP > 0 {
			cls = append(cls, "assoc-by-vehicle-position")
		}
		if info.AssocBoth > 0 {
			cls = append(cls, "assoc-by-both")
		}
		if info.AssocIdless > 0 {
			cls = append(cls, "assoc-idless-vehicle")
		}
		if info.AssocNoIDField > 0 {
			cls = append(cls, "assoc-label-or-plate-only")
		}
		if info.AssocTU+info.AssocVP+info.AssocBoth == 0 {
			cls = append(cls, "no-association")
		}
		c04Rec.Eval(cls...)
		if len(m.Entities) >= 2 && (info.AssocVP+info.AssocBoth > 0 || info.AssocIdless+info.AssocNoIDField > 0) {
			c04Rec.NontrivialCase(vt.Fingerprint(c), func() any { return c })
		}
		vt.Run(t, c04Rec, c, checkC04)
	})
}

func permutations(n int) [][]int {
	if n == 0 {
		return [][]int{{}}
	}
	var out [][]int
	var rec func(cur []int, used []bool)
	rec = func(cur []int, used []bool) {
		if len(cur) == n {
			out = append(out, append([]int(nil), cur...))
			return
		}
		for i := 0; i < n; i++ {
			if !used[i] {
				used[i] = true
				rec(append(cur, i), used)
				used[i] = false
			}
		}
	}
	rec(nil, make([]bool, n))
	return out
}

func TestC04Patterns(t *testing.T) {
	if os.Getenv("VERIF_PROP") == "" {
		t.Skip("driver only")
	}
	_ = strconv.Itoa
	c04PatRec.Exhaustive = true
	P := rgen.P[string]
	trip := rgen.TripDesc{TripID: P("T1"), RouteID: P("R")}
	otherTrip := rgen.TripDesc{TripID: P("T0")}
	idents := map[string]*rgen.VehDesc{
		"id": {ID: P("V1")}, "label": {Label: P("L1")}, "plate": {Plate: P("P1")}, "none": nil,
	}
	for _, expr := range []string{"TU", "VP", "both"} {
		for _, identName := range []string{"id", "label", "plate", "none"} {
			vd := idents[identName]
			if vd == nil && expr != "VP" {
				continue // without a descriptor only the vehicle position can express the link
			}
			for extras := 0; extras < 4; extras++ {
				var ents []rgen.Entity
				tu := &rgen.TripUpdate{Trip: trip, STUs: []rgen.STU{{StopID: P("S1")}}}
				vp := &rgen.VehiclePos{Vehicle: vd, StopID: P("S9"), Ts: rgen.P(uint64(1700000000))}
				if expr == "TU" || expr == "both" {
					tu.Vehicle = vd
				}
				if expr == "VP" || expr == "both" {
					d := trip
					vp.Trip = &d
				}
				switch expr {
				case "TU":
					ents = append(ents, rgen.Entity{TU: tu})
					if extras&2 != 0 { // the vehicle also has a position of its own, without a trip
						ents = append(ents, rgen.Entity{VP: vp})
					}
				case "VP":
					ents = append(ents, rgen.Entity{VP: vp})
					if extras&2 != 0 {
						ents = append(ents, rgen.Entity{TU: tu})
					}
				default:
					ents = append(ents, rgen.Entity{TU: tu}, rgen.Entity{VP: vp})
				}
				if extras&1 != 0 {
					ents = append(ents, rgen.Entity{TU: &rgen.TripUpdate{Trip: otherTrip}},
						rgen.Entity{VP: &rgen.VehiclePos{Vehicle: &rgen.VehDesc{ID: P("V0")}}})
				}
				for _, perm := range permutations(len(ents)) {
					m := &rgen.Msg{Timestamp: rgen.P(uint64(1700000100))}
					for k, p := range perm {
						e := ents[p]
						e.ID = fmt.Sprintf("e%d", k)
						m.Entities = append(m.Entities, e)
					}
					c := CaseRT{Zone: "", Msg: m}
					c04PatRec.Eval(expr + "/" + identName)
					c04PatRec.NontrivialCase(vt.Fingerprint(c), func() any { return c })
					vt.Run(t, c04PatRec, c, checkC04)
				}
			}
		}
	}
}

// largeRT runs check on systematically large conflict-free messages (every (kind, size) combination in every tier).
func largeRT[C any](t *testing.T, rec *vt.Recorder, combos [][2]int, mk func(t *rapid.T, zone string, m *rgen.Msg) C, check func(C) error) {
	kinds := []string{"trips+vehicles", "stop-time-updates", "selectors", "alerts"}
	for _, k := range combos {
		what, n := k[0], k[1]
		t.Run(fmt.Sprintf("%s-%d", kinds[what], n), func(outer *testing.T) {
			fail := ""
			defer func() {
				if fail != "" {
					outer.Fatalf("%s", fail)
				}
			}()
			rapid.Check(outer, func(t *rapid.T) {
				zone := rapid.SampledFrom([]string{"", "America/New_York", "Europe/London"}).Draw(t, "zone")
				o := rgen.DefaultGenOpts(zone)
				o.NoPartialDescriptors, o.NoSizeClasses = true, true
				switch what {
				case 0:
					o.MaxTrips, o.MaxVehicles, o.MinTrips, o.MinVehicles = n, n, n, n
					o.MaxSTU, o.MaxAlerts, o.MaxIdless, o.MinIdless = 1, 1, n/3, n/3 // a third as many vehicles without any identity
				case 1:
					o.MaxTrips, o.MinTrips, o.MaxSTU, o.MinSTU = 3, 2, n/2, n/2
				case 2:
					o.MaxAlerts, o.MinAlerts, o.MaxSelectors, o.MinSelectors = 1, 1, n, n
				default:
					o.MaxAlerts, o.MinAlerts, o.MaxSelectors = n, n, 2
				}
				m, _ := rgen.GenMsg(t, o)
				for i := 0; len(m.Entities)%16 != 13; i++ {
					// an entity count that leaves a remainder for every plausible number of chunks or workers (2, 4, 8, 16)
					m.Entities = append(m.Entities, rgen.Entity{ID: fmt.Sprintf("odd%d", i), VP: &rgen.VehiclePos{Vehicle: &rgen.VehDesc{ID: rgen.P(fmt.Sprintf("odd-vehicle-%d", i))}, StopID: rgen.P("S1")}})
				}
				c := mk(t, zone, m)
				rec.Eval(fmt.Sprintf("large:%s>=%d", kinds[what], n))
				// what the message really contains (a size class that does not reach its threshold tests nothing)
				counts := map[string]int{"entities": len(m.Entities)}
				for i := range m.Entities {
					e := &m.Entities[i]
					switch {
					case e.TU != nil:
						counts["trip-updates"]++
						counts["stop-time-updates"] += len(e.TU.STUs)
					case e.VP != nil:
						counts["vehicle-positions"]++
						if e.VP.Vehicle == nil {
							counts["vehicles-without-identity"]++
						}
					case e.AL != nil:
						counts["alerts"]++
						counts["selectors"] += len(e.AL.Informed)
					}
				}
				for k, v := range counts {
					for _, th := range []int{65536, 16384, 8192} {
						if v > th {
							rec.Class(fmt.Sprintf("large:reached:%s>%d", k, th))
							break
						}
					}
				}
				rec.NontrivialCase(vt.Fingerprint([]any{zone, what, n, len(m.Entities)}), func() any {
					return map[string]any{"zone": zone, "entities": len(m.Entities), "size": n, "of": kinds[what]}
				})
				if msg := vt.Try(rec, c, check); msg != "" && fail == "" {
					fail = msg
				}
			})
		})
	}
}

// TestC04Large: links between 9000 / 70000 trips and as many vehicles, plus a third as many vehicles without any identity.
func TestC04Large(t *testing.T) {
	largeRT(t, c04Rec, [][2]int{{0, 9000}, {0, 30000}, {0, 100000}}, func(t *rapid.T, zone string, m *rgen.Msg) CaseRT {
		c := CaseRT{Zone: zone, Msg: m}
		c.Env = genEnv(t)
		return c
	}, checkC04)
}
