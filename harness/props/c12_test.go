package props

import (
	"fmt"
	"testing"

	"pgregory.net/rapid"

	"verifharness/rgen"
	"verifharness/vt"
)

// ---------------------------------------------------------------------------------------------
// C12: alert informed entities are normalised without losing or inventing scope.

var c12Rec = vt.NewRecorder("C12", "TestC12",
	"messages of 1-3 alerts with 0-8 selectors over every presence combination of agency / route / route type (known and unknown numbers) / direction / stop / trip descriptor "+
		"(identifying by id, identifying by route+direction+time+date, route only, route+direction, empty, partial), several routes and directions per alert, mixed with trip updates for some referenced trips. "+
		"Oracle: (i) every output entity informs something, carries a trip identifier only when identifying, and that trip is in Trips; (ii) name-carrying selectors appear in order with exactly their values; "+
		"(iii) exactly one route-level entity per route named only by route(+direction) descriptors and not informed explicitly, with the single named direction or none (set comparison; routes touched by partial descriptors are left open). "+
		"Non-trivial = an alert with >=2 selectors of different kinds or >=1 fallback candidate")

func init() { registerReplay("C12", "TestC12", checkC12) }

func checkC12(c CaseRT) error {
	if c.Msg == nil {
		return vt.Failf("malformed case")
	}
	r, err := parseRT(c, nil)
	if err != nil {
		return vt.Failf("ParseRealtime rejected a well-formed message: %v", err)
	}
	got := rgen.Normalize(r)
	loc := rgen.LocOrUTC(c.Zone)
	tripKeys := map[string]bool{}
	for _, t := range got.Trips {
		tripKeys[t.ID.Key()] = true
	}
	ai := 0
	for ei := range c.Msg.Entities {
		e := &c.Msg.Entities[ei]
		if e.AL == nil {
			continue
		}
		if ai >= len(got.Alerts) {
			return vt.Failf("alert entity %q has no parsed alert", e.ID)
		}
		g := got.Alerts[ai]
		ai++
		// (i) on the output alone
		for k, ie := range g.Informed {
			informs := ie.Agency != nil || ie.Route != nil || ie.Stop != nil || ie.Trip != nil || (ie.RouteType != 10000)
			if !informs {
				return vt.FailSig("informs-nothing", "alert %q: informed entity %d informs nothing: %s", e.ID, k, rgen.JS(ie))
			}
			if ie.Trip != nil {
				if !rgen.Identifying(*ie.Trip) {
					return vt.FailSig("non-identifying-trip", "alert %q: informed entity %d carries a trip identifier that does not determine a trip: %s", e.ID, k, rgen.JS(ie))
				}
				if !tripKeys[ie.Trip.Key()] {
					return vt.FailSig("alert-trip-missing", "alert %q: informed entity %d names trip %s which is not in Trips", e.ID, k, ie.Trip.Key())
				}
			}
			if ie.RouteType != 10000 && !map[int32]bool{0: true, 1: true, 2: true, 3: true, 4: true, 5: true, 6: true, 7: true, 11: true, 12: true}[ie.RouteType] {
				return vt.Failf("alert %q: informed entity %d has route type %d which is no GTFS route type", e.ID, k, ie.RouteType)
			}
		}
		// (ii) + (iii) against the reference normalisation
		want, _ := rgen.ExpectAlert(e.ID, e.AL, loc)
		if err := rgen.CompareAlert(g, want); err != nil {
			return vt.Failf("alert %q: %v\n selectors: %s", e.ID, err, rgen.JS(e.AL.Informed))
		}
	}
	if ai != len(got.Alerts) {
		return vt.Failf("%d alerts parsed from %d alert entities", len(got.Alerts), ai)
	}
	return nil
}

func c12Classify(c CaseRT) (classes []string, nontrivial bool) {
	loc := rgen.LocOrUTC(c.Zone)
	for ei := range c.Msg.Entities {
		al := c.Msg.Entities[ei].AL
		if al == nil {
			continue
		}
		_, fb, optional, trips := rgen.ExpectAlertInformed(al.Informed, loc)
		kinds := map[string]bool{}
		for _, s := range al.Informed {
			k := ""
			if s.Agency != nil {
				k += "a"
			}
			if s.Route != nil {
				k += "r"
			}
			if s.RouteType != nil {
				k += "t"
			}
			if s.Stop != nil {
				k += "s"
			}
			if s.Trip != nil {
				k += "d"
			}
			kinds[k] = true
		}
		dirs := 0
		for _, f := range fb {
			if f.Dir != "unspecified" {
				dirs++
			}
		}
		switch {
		case len(fb) >= 2:
			classes = append(classes, "fallback>=2-routes")
		case len(fb) == 1:
			classes = append(classes, "fallback-1-route")
		}
		if dirs > 0 {
			classes = append(classes, "fallback-with-direction")
		}
		if len(fb) > dirs {
			classes = append(classes, "fallback-both-directions")
		}
		if len(optional) > 0 {
			classes = append(classes, "partial-descriptor-route")
		}
		if len(trips) > 0 {
			classes = append(classes, "identifying-trip")
		}
		if len(trips) > 0 && len(fb) > 0 {
			classes = append(classes, "identifying-next-to-fallback")
		}
		suppressed := false
		explicit := map[string]bool{}
		for _, s := range al.Informed {
			if s.Route != nil {
				explicit[*s.Route] = true
			}
		}
		for _, s := range al.Informed {
			if s.Trip != nil && s.Trip.RouteID != nil && explicit[*s.Trip.RouteID] && !rgen.Identifying(rgen.ExpectTripID(s.Trip, loc)) {
				suppressed = true
			}
		}
		if suppressed {
			classes = append(classes, "fallback-suppressed-by-explicit-route")
		}
		if len(kinds) >= 2 || len(fb) > 0 || suppressed {
			nontrivial = true
		}
	}
	return dedupe(classes), nontrivial
}

func genC12(t *rapid.T) CaseRT {
	zone := rapid.SampledFrom([]string{"", "America/New_York", "fixed:+05:45"}).Draw(t, "zone")
	o := rgen.DefaultGenOpts(zone)
	o.MaxSelectors = 8
	if rapid.IntRange(0, 24).Draw(t, "sizeClass") == 0 {
		o.MaxSelectors = rapid.SampledFrom([]int{17, 33, 70, 130, 260}).Draw(t, "manySelectors")
	}
	m := &rgen.Msg{Timestamp: rgen.P(uint64(1700000000))}
	// a few trips with entities of their own, referenced by some alerts
	var pool []rgen.TripDesc
	nT := rapid.IntRange(0, 3).Draw(t, "nTrips")
	for i := 0; i < nT; i++ {
		d := rgen.GenTripDesc(t, i, zone)
		if rgen.Identifying(rgen.ExpectTripID(&d, rgen.LocOrUTC(zone))) {
			pool = append(pool, d)
		}
		if rapid.Bool().Draw(t, "tripHasTU") {
			m.Entities = append(m.Entities, rgen.Entity{TU: &rgen.TripUpdate{Trip: d}})
		}
	}
	nA := rapid.IntRange(1, 3).Draw(t, "nAlerts")
	for i := 0; i < nA; i++ {
		al := rgen.GenAlert(t, pool, o)
		pos := rapid.IntRange(0, len(m.Entities)).Draw(t, "alertPos")
		m.Entities = append(m.Entities[:pos], append([]rgen.Entity{{AL: al}}, m.Entities[pos:]...)...)
	}
	for i := range m.Entities {
		m.Entities[i].ID = fmt.Sprintf("e%d", i)
	}
	return CaseRT{Zone: zone, Msg: m, Primers: genPrimers(t, zone, m)}
}

func TestC12(t *testing.T) { rapid.Check(t, propC12) }

func propC12(t *rapid.T) {
	c := genC12(t)
	c.Env = genEnv(t)
	classes, nt := c12Classify(c)
	c12Rec.Eval(classes...)
	if nt {
		c12Rec.NontrivialCase(vt.Fingerprint(c), func() any { return c })
	}
	vt.Run(t, c12Rec, c, checkC12)
}

// TestC12Large: one alert with 20000 / 70000 selectors, and 9000 / 70000 alerts, against the reference normalisation.
func TestC12Large(t *testing.T) {
	largeRT(t, c12Rec, [][2]int{{2, 20000}, {2, 140000}, {3, 9000}, {3, 70000}}, func(t *rapid.T, zone string, m *rgen.Msg) CaseRT {
		// every selector gets a route id of its own (explicit selectors and route-only descriptors from separate ranges, with a
		// few overlaps), so that one alert can name more than 65,536 distinct routes
		k := 0
		for ei := range m.Entities {
			al := m.Entities[ei].AL
			if al == nil || len(al.Informed) < 1000 {
				continue
			}
			for si := range al.Informed {
				sel := &al.Informed[si]
				k++
				if sel.Route != nil || (sel.Trip == nil && k%2 == 0) {
					sel.Route = rgen.P(fmt.Sprintf("R%d", k))
				}
				if d := sel.Trip; d != nil && d.TripID == nil && d.RouteID != nil && d.StartTime == nil && d.StartDate == nil {
					dd := *d
					dd.RouteID = rgen.P(fmt.Sprintf("R%d", k-k%3)) // every third one names a route an explicit selector may name too
					sel.Trip = &dd
				}
			}
		}
		distinct := map[string]bool{}
		for ei := range m.Entities {
			if al := m.Entities[ei].AL; al != nil && len(al.Informed) >= 1000 {
				for si := range al.Informed {
					if r := al.Informed[si].Route; r != nil {
						distinct[*r] = true
					}
					if d := al.Informed[si].Trip; d != nil && d.RouteID != nil {
						distinct[*d.RouteID] = true
					}
				}
			}
		}
		if len(distinct) > 65536 {
			c12Rec.Class("large:distinct-routes-in-one-alert>65536")
		}
		c := CaseRT{Zone: zone, Msg: m}
		c.Env = genEnv(t)
		return c
	}, checkC12)
}
