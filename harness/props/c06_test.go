package props

import (
	"bytes"
	"encoding/json"
	"fmt"
	"os"
	"strings"
	"sync"
	"testing"
	"time"

	"github.com/jamespfennell/gtfs"
	"github.com/jamespfennell/gtfs/extensions/nyctalerts"
	"github.com/jamespfennell/gtfs/extensions/nycttrips"
	"pgregory.net/rapid"

	"verifharness/rgen"
	"verifharness/sgen"
	"verifharness/vt"
)

// ---------------------------------------------------------------------------------------------
// C06: parsing is a pure function of bytes and options - deterministic and history-free.

type ExtSpec struct {
	Kind   string // "none" (explicit no-op extension) | "nil" | "nycttrips" | "nyctalerts"
	Trips  rgen.NyctTripsOpts
	Alerts rgen.NyctAlertsOpts
}

func (e ExtSpec) options(zone string) *gtfs.ParseRealtimeOptions {
	o := &gtfs.ParseRealtimeOptions{Timezone: rgen.Loc(zone)}
	switch e.Kind {
	case "nycttrips":
		o.Extension = nycttrips.Extension(nycttrips.ExtensionOpts{FilterStaleUnassignedTrips: e.Trips.FilterStale, PreserveMTrainPlatformsInBushwick: e.Trips.PreserveM})
	case "nyctalerts":
		o.Extension = nyctalerts.Extension(nyctAlertsExt(e.Alerts))
	case "none":
		o.Extension = noExtension()
	}
	return o
}

func genExtSpec(t *rapid.T) ExtSpec {
	e := ExtSpec{Kind: rapid.SampledFrom([]string{"nil", "none", "nycttrips", "nyctalerts", "nyctalerts"}).Draw(t, "extKind")}
	switch e.Kind {
	case "nycttrips":
		e.Trips = rgen.NyctTripsOpts{FilterStale: rapid.Bool().Draw(t, "filter"), PreserveM: rapid.Bool().Draw(t, "preserveM")}
	case "nyctalerts":
		e.Alerts = genC17Opts(t)
	}
	return e
}

type CaseC06RT struct {
	vt.Env
	Zone string
	Ext  ExtSpec
	Msgs []*rgen.Msg // earlier parses through the same options object, then the target (last)
	// Model: the target is a conflict-free message, so the reference model of the configured extension says what a parse of it
	// returns whatever this process parsed before.
	Model bool `json:",omitempty"`
}

type CaseC06Static struct {
	vt.Env
	Feed    *sgen.Feed
	Pres    sgen.Presentation
	Inherit bool
	History []*sgen.Feed
}

var c06RTRec = vt.NewRecorder("C06", "TestC06Realtime",
	"realtime targets with >=3 id-bearing vehicles, alerts naming >=2 fallback routes, elevator alert groups and NYCT trips, x extension configuration {Extension nil, explicit no-op, NYCT trips 2x2, NYCT alerts 4x2x2x2} "+
		"x a generated history of 0-4 earlier messages (same generator, so elevator ids recur) parsed through the SAME options/extension object. Oracle (differential): 8 parses with fresh options agree in content AND order of every slice; "+
		"the parse after the history with the shared object equals the parse with a fresh equivalent object; the FIRST result object, held throughout, has the same normal form after all later calls; the input buffer is unchanged; (driver) a second process runs the same seed but executes only every other case; the digests of the cases both executed must be identical (cross-process determinism and freedom from state left behind by other cases, whatever their options). "+
		"Non-trivial = the result has >=2 items in a map-built collection (vehicles with id, route-level informed entities) or the history is non-empty with a stateful extension")

var c06StaticRec = vt.NewRecorder("C06", "TestC06Static",
	"static feeds with >=3 services (and every other collection) x presentation x 0-3 earlier parses of other feeds. Oracle: 8 parses agree in content and order of every slice including Services; the parse after the history equals the first; the first result object, held throughout, has the same normal form after all later calls; "+
		"the input bytes are unchanged; digests agree across processes. Non-trivial = >=3 services")

func init() {
	registerReplay("C06", "TestC06Realtime", checkC06RT)
	registerReplay("C06", "TestC06Static", checkC06Static)
}

var (
	digestMu   sync.Mutex
	digestFile *os.File
)

var c06Index = map[string]int{}

// c06Skip numbers the cases of a test and reports whether this process leaves the case out. The driver runs the same seed
// in two processes; the second one (VERIF_DIGEST_SUBSET set) executes only every other case, so state that an executed case
// leaves behind in the library (a package-level cache, say) reaches different cases in the two processes and shows up as a
// digest difference on the cases both executed.
func c06Skip(test string) (int, bool) {
	digestMu.Lock()
	defer digestMu.Unlock()
	c06Index[test]++
	idx := c06Index[test]
	return idx, os.Getenv("VERIF_DIGEST_SUBSET") != "" && idx%2 == 0
}

var c06Current = map[string]int{}

func writeDigest(test string, caseFP, resultFP uint64) {
	p := os.Getenv("VERIF_DIGEST_OUT")
	if p == "" {
		return
	}
	digestMu.Lock()
	defer digestMu.Unlock()
	if digestFile == nil {
		f, err := os.OpenFile(p, os.O_CREATE|os.O_WRONLY|os.O_APPEND, 0o644)
		if err != nil {
			return
		}
		digestFile = f
	}
	fmt.Fprintf(digestFile, "%s %d %016x %016x\n", test, c06Current[test], caseFP, resultFP)
}

// c06EnvNeutral is the normal form used to compare results obtained under different process time zones. The NYCT metadata
// translation is JSON text holding time.Time values: the same instants are written with the offset of the process zone
// (the library's own test expects exactly that), which is a presentation of equal values, not a different result - the
// metadata is therefore decoded and its instants compared as Unix seconds.
func c06EnvNeutral(r *gtfs.Realtime) string {
	n := rgen.Normalize(r)
	for ai := range n.Alerts {
		for di := range n.Alerts[ai].Desc {
			d := &n.Alerts[ai].Desc[di]
			if d.Lang != nyctalerts.MetadataLanguage {
				continue
			}
			var md nyctalerts.Metadata
			if err := json.Unmarshal([]byte(d.Text), &md); err == nil {
				d.Text = fmt.Sprintf("metadata{created=%d updated=%d display_before_active=%d active_period=%q}", md.CreatedAt.Unix(), md.UpdatedAt.Unix(), md.DisplayBeforeActive, md.HumanReadableActivePeriod)
			}
		}
	}
	return rgen.JS(n)
}

const c06Repeats = 8

// c06AltEnvs are process environments under which every C06 case is parsed once more: time zones whose names coincide with
// configured zones or with abbreviations, at offsets of their own, and other numbers of processors.
var c06AltEnvs = []vt.Env{{Local: "PST|-28800"}, {Local: "UTC|20700"}, {Local: "America/New_York|3600", Procs: 3}, {Local: "EDT|-14400"}, {Procs: 1}}

func checkC06RT(c CaseC06RT) error {
	if len(c.Msgs) == 0 {
		return vt.Failf("malformed case")
	}
	var bufs [][]byte
	for _, m := range c.Msgs {
		bufs = append(bufs, m.Marshal())
	}
	target := bufs[len(bufs)-1]
	pristine := append([]byte(nil), target...)
	var first, firstNeutral string
	var held *gtfs.Realtime // the first result, looked at again after every later call
	for i := 0; i < c06Repeats; i++ {
		r, err := gtfs.ParseRealtime(target, c.Ext.options(c.Zone))
		if err != nil {
			return vt.Failf("ParseRealtime rejected a well-formed message: %v", err)
		}
		js := rgen.JS(rgen.Normalize(r))
		if i == 0 {
			first = js
			held = r
			firstNeutral = c06EnvNeutral(r)
			if c.Model {
				if err := rtModel(c.Ext, c.Zone, c.Msgs[len(c.Msgs)-1], rgen.Normalize(r)); err != nil {
					return vt.FailSig("differs-from-model", "extension %+v: the parse differs from the reference model (it may depend on what this process parsed earlier): %v", c.Ext, err)
				}
			}
		} else if js != first {
			return vt.FailSig("nondeterministic", "extension %+v: parse #%d of the same bytes with fresh options differs from parse #1: %s", c.Ext, i+1, rgen.FirstDiff(js, first))
		}
	}
	if !bytes.Equal(target, pristine) {
		return vt.Failf("ParseRealtime modified its input buffer")
	}
	// the same bytes and equivalent options under another process environment (time zone of the process)
	for _, alt := range c06AltEnvs {
		alt.Apply()
		r, err := gtfs.ParseRealtime(target, c.Ext.options(c.Zone))
		c.Env.Apply()
		if err != nil {
			return vt.FailSig("environment-dependent", "under the process environment %+v ParseRealtime rejects the message: %v", alt, err)
		}
		if js := c06EnvNeutral(r); js != firstNeutral {
			return vt.FailSig("environment-dependent", "extension %+v: under the process environment %+v the result differs: %s", c.Ext, alt, rgen.FirstDiff(js, firstNeutral))
		}
	}
	shared := c.Ext.options(c.Zone)
	for _, b := range bufs[:len(bufs)-1] {
		gtfs.ParseRealtime(b, shared)
	}
	r, err := gtfs.ParseRealtime(target, shared)
	if err != nil {
		return vt.Failf("ParseRealtime with a reused options object rejected a well-formed message: %v", err)
	}
	if js := rgen.JS(rgen.Normalize(r)); js != first {
		return vt.FailSig("history-dependent", "extension %+v: after %d earlier parses through the same options object the result differs from a parse with fresh options: %s", c.Ext, len(bufs)-1, rgen.FirstDiff(js, first))
	}
	// and once more: the same bytes through the same object
	r, err = gtfs.ParseRealtime(target, shared)
	if err != nil {
		return vt.Failf("second ParseRealtime of the same bytes with the same options failed: %v", err)
	}
	if js := rgen.JS(rgen.Normalize(r)); js != first {
		return vt.FailSig("history-dependent", "extension %+v: parsing the same bytes twice through one options object gives different results: %s", c.Ext, rgen.FirstDiff(js, first))
	}
	if js := rgen.JS(rgen.Normalize(held)); js != first {
		return vt.FailSig("retained-result-altered", "extension %+v: later ParseRealtime calls changed the result of an earlier call that the caller still holds: %s", c.Ext, rgen.FirstDiff(js, first))
	}
	writeDigest("TestC06Realtime", vt.Fingerprint(c), vt.Fingerprint(first))
	return nil
}

func checkC06Static(c CaseC06Static) error {
	if c.Feed == nil {
		return vt.Failf("malformed case")
	}
	b := sgen.Render(c.Feed.Tables(), c.Pres)
	pristine := append([]byte(nil), b...)
	opts := gtfs.ParseStaticOptions{InheritWheelchairBoarding: c.Inherit}
	var first string
	var held *gtfs.Static // the first result, looked at again after every later call
	for i := 0; i < c06Repeats; i++ {
		s, err := gtfs.ParseStatic(b, opts)
		if err != nil {
			if sgen.HasZeroByteMember(c.Feed.Tables(), c.Pres) {
				return nil
			}
			return vt.Failf("ParseStatic rejected a well-formed archive: %v", err)
		}
		js := sgen.JS(sgen.Normalize(s))
		if i == 0 {
			first = js
			held = s
			// what a parse of these bytes returns whatever came before it is what the reference model says (C01 checks the
			// model against single parses): a result that was shaped by an earlier case of this process differs from it
			want := sgen.Expect(c.Feed, sgen.Options{InheritWheelchairBoarding: c.Inherit}).SortedServices()
			if d := sgen.Diff(sgen.ReconcileGaps(sgen.Normalize(s).SortedServices(), want), want); d != "" {
				return vt.FailSig("differs-from-model", "the parse differs from the reference transcription of the feed (it may depend on what this process parsed earlier): %s", d)
			}
		} else if js != first {
			return vt.FailSig("nondeterministic", "parse #%d of the same bytes differs from parse #1: %s", i+1, rgen.FirstDiff(js, first))
		}
	}
	if !bytes.Equal(b, pristine) {
		return vt.Failf("ParseStatic modified its input buffer")
	}
	for _, alt := range c06AltEnvs {
		alt.Apply()
		s, err := gtfs.ParseStatic(b, opts)
		c.Env.Apply()
		if err != nil {
			return vt.FailSig("environment-dependent", "under the process environment %+v ParseStatic rejects the archive: %v", alt, err)
		}
		if js := sgen.JS(sgen.Normalize(s)); js != first {
			return vt.FailSig("environment-dependent", "under the process environment %+v the result differs: %s", alt, rgen.FirstDiff(js, first))
		}
	}
	for _, h := range c.History {
		gtfs.ParseStatic(sgen.Render(h.Tables(), sgen.Canonical()), opts)
	}
	s, err := gtfs.ParseStatic(b, opts)
	if err != nil {
		return vt.Failf("ParseStatic failed after earlier parses: %v", err)
	}
	if js := sgen.JS(sgen.Normalize(s)); js != first {
		return vt.FailSig("history-dependent", "after %d earlier parses the result differs: %s", len(c.History), rgen.FirstDiff(js, first))
	}
	if js := sgen.JS(sgen.Normalize(held)); js != first {
		return vt.FailSig("retained-result-altered", "later ParseStatic calls changed the result of an earlier call that the caller still holds: %s", rgen.FirstDiff(js, first))
	}
	writeDigest("TestC06Static", vt.Fingerprint(c), vt.Fingerprint(first))
	return nil
}

// genC06Msg draws a message that exercises every map-built collection and every extension.
var c06NoSizeClasses bool // set by C18, whose workloads repeat every parse dozens of times under the race detector

func genC06Msg(t *rapid.T, zone string, ext ExtSpec) (*rgen.Msg, int, int) {
	m, a, b, _ := genC06MsgModel(t, zone, ext)
	return m, a, b
}

// genC06MsgModel also reports whether the reference models (C02, C16, C17) apply to the message.
func genC06MsgModel(t *rapid.T, zone string, ext ExtSpec) (*rgen.Msg, int, int, bool) {
	var m *rgen.Msg
	modelOK := true
	switch ext.Kind {
	case "nycttrips":
		m, _, _, _ = genNyctMsg(t, zone)
	case "nyctalerts":
		c, _ := genC17(t)
		m = c.Msg
	default:
		if rapid.Bool().Draw(t, "conflicting") {
			// determinism is claimed for ALL inputs: also messages that describe a trip or vehicle twice, or link one vehicle to several trips
			m, _ = genAnyMsg(t, zone)
			modelOK = false
		} else {
			o := rgen.DefaultGenOpts(zone)
			o.NoPartialDescriptors = true
			o.NoSizeClasses = c06NoSizeClasses
			m, _ = rgen.GenMsg(t, o)
		}
	}
	// extra id-bearing vehicles and an alert with several fallback routes
	nV := rapid.IntRange(0, 5).Draw(t, "extraVehicles")
	for i := 0; i < nV; i++ {
		m.Entities = append(m.Entities, rgen.Entity{ID: fmt.Sprintf("xv%d", i), VP: &rgen.VehiclePos{Vehicle: &rgen.VehDesc{ID: rgen.P(fmt.Sprintf("XV%d", i))}, StopID: rgen.P("S1")}})
	}
	nR := rapid.IntRange(0, 4).Draw(t, "fallbackRoutes")
	if nR > 0 {
		a := &rgen.Alert{}
		for i := 0; i < nR; i++ {
			a.Informed = append(a.Informed, rgen.Selector{Trip: &rgen.TripDesc{RouteID: rgen.P(fmt.Sprintf("FB%d", i)), Direction: rgen.P(uint32(i % 2))}})
		}
		m.Entities = append(m.Entities, rgen.Entity{ID: "fallback-alert", AL: a})
	}
	idVehicles := 0
	for _, e := range m.Entities {
		if e.VP != nil && e.VP.Vehicle != nil && (e.VP.Vehicle.ID != nil || e.VP.Vehicle.Label != nil || e.VP.Vehicle.Plate != nil) {
			idVehicles++
		}
	}
	return m, idVehicles, nR, modelOK
}

func TestC06Realtime(t *testing.T) {
	rapid.Check(t, func(t *rapid.T) {
		zone := rapid.SampledFrom([]string{"", "America/New_York"}).Draw(t, "zone")
		ext := genExtSpec(t)
		c := CaseC06RT{Zone: zone, Ext: ext}
		c.Env = genEnv(t)
		nh := rapid.IntRange(0, 4).Draw(t, "history")
		for i := 0; i < nh; i++ {
			m, _, _ := genC06Msg(t, zone, ext)
			c.Msgs = append(c.Msgs, m)
		}
		target, idVehicles, fb, modelOK := genC06MsgModel(t, zone, ext)
		c.Model = modelOK
		if ext.Kind == "nycttrips" && rapid.Bool().Draw(t, "historyVariantOfTarget") {
			// an earlier feed about the same trips in another state: every NYCT trip assigned
			v := cloneVia(target)
			for i := range v.Entities {
				if tu := v.Entities[i].TU; tu != nil && tu.Trip.Nyct != nil {
					tu.Trip.Nyct.IsAssigned = rgen.P(true)
					if tu.Trip.Nyct.TrainID == nil {
						tu.Trip.Nyct.TrainID = rgen.P(fmt.Sprintf("train-%d", i))
					}
				}
			}
			c.Msgs = append(c.Msgs, v)
			nh++
		}
		c.Msgs = append(c.Msgs, target)
		cls := []string{"ext=" + ext.Kind}
		if nh > 0 {
			cls = append(cls, "with-history")
		}
		if idVehicles >= 3 {
			cls = append(cls, ">=3-id-vehicles")
		}
		if fb >= 2 {
			cls = append(cls, ">=2-fallback-routes")
		}
		idx, skip := c06Skip("TestC06Realtime")
		if skip {
			return
		}
		c06Current["TestC06Realtime"] = idx
		c06RTRec.Eval(cls...)
		if idVehicles >= 2 || fb >= 2 || (nh > 0 && (ext.Kind == "nyctalerts" || ext.Kind == "nycttrips")) {
			c06RTRec.NontrivialCase(vt.Fingerprint(c), func() any { return c })
		}
		vt.Run(t, c06RTRec, c, checkC06RT)
	})
}

func TestC06Static(t *testing.T) {
	rapid.Check(t, func(t *rapid.T) {
		o := sgen.DefaultGenOpts()
		o.MinServices, o.MaxServices, o.ServiceMix = 3, 6, true
		f, _ := sgen.GenFeed(t, o)
		if rapid.IntRange(0, 39).Draw(t, "inflate") == 0 {
			// hundreds of trips: whatever the parser does differently for large feeds must still be deterministic
			f = sgen.InflateFeed(f, rapid.SampledFrom([]int{1100, 2100}).Draw(t, "inflateTo"))
		}
		p, _ := sgen.GenPresentation(t, f.Tables())
		c := CaseC06Static{Feed: f, Pres: p, Inherit: rapid.Bool().Draw(t, "inherit")}
		c.Env = genEnv(t)
		for i := rapid.IntRange(0, 3).Draw(t, "history"); i > 0; i-- {
			h, _ := sgen.GenFeed(t, sgen.DefaultGenOpts())
			c.History = append(c.History, h)
		}
		if len(f.Agencies) > 0 && rapid.IntRange(0, 2).Draw(t, "zoneSpellingHistory") == 0 {
			// an earlier feed that is the target with its agency zone spelled in another case: "europe/london" is not a zone
			// name (the fallback applies), "Europe/London" is - whichever comes first must not decide for the other
			h := cloneVia(f)
			tz := h.Agencies[0].TZ
			other := strings.ToLower(tz)
			if other == tz {
				other = strings.ToUpper(tz)
			}
			for _, z := range sgen.AgencyZones { // prefer a spelling the generator also uses (the loadable one, if there is one)
				if strings.EqualFold(z, tz) && z != tz {
					other = z
					if _, err := time.LoadLocation(z); err == nil {
						break
					}
				}
			}
			h.Agencies[0].TZ = other
			c.History = append(c.History, h)
		}
		services := map[string]bool{}
		for _, x := range f.Calendar {
			services[x.ServiceID] = true
		}
		for _, x := range f.CalendarDates {
			if x.ExType == "1" || x.ExType == "2" {
				services[x.ServiceID] = true
			}
		}
		cls := fmt.Sprintf("services=%d", min(len(services), 6))
		idx, skip := c06Skip("TestC06Static")
		if skip {
			return
		}
		c06Current["TestC06Static"] = idx
		c06StaticRec.Eval(cls)
		if len(services) >= 3 {
			c06StaticRec.NontrivialCase(vt.Fingerprint(c), func() any {
				return map[string]any{"services": len(services), "history": len(c.History), "calendar": f.Calendar, "calendar_dates": f.CalendarDates}
			})
		}
		vt.Run(t, c06StaticRec, c, checkC06Static)
	})
}

// ---- every input, accepted or not, is left untouched and gives the same outcome each time

type CaseC06Bytes struct {
	vt.Env
	Static  bool
	Data    []byte
	Inherit bool
	Ext     ExtSpec
	Zone    string
}

var c06BytesRec = vt.NewRecorder("C06", "TestC06Bytes",
	"inputs that are not (or barely) well-formed: rendered archives (with and without an archive comment) cut short by 1 ... len(comment) ... any number of bytes, with mutated bytes, with bytes appended; "+
		"realtime messages cut short or mutated; x options. Oracle: after every call the input slice equals a pristine copy; three calls give the same outcome (same normal form, or an error each time). "+
		"Non-trivial = the input differs from a well-formed rendering (so the parser's rejection and recovery paths run)")

func init() { registerReplay("C06", "TestC06Bytes", checkC06Bytes) }

func checkC06Bytes(c CaseC06Bytes) error {
	in := append(make([]byte, 0, len(c.Data)+64), c.Data...) // spare capacity, as a caller's buffer may have
	pristine := append([]byte(nil), c.Data...)
	var first string
	for i := 0; i < 3; i++ {
		var js string
		if c.Static {
			s, err := gtfs.ParseStatic(in, gtfs.ParseStaticOptions{InheritWheelchairBoarding: c.Inherit})
			if err != nil {
				js = "ERROR"
			} else {
				js = sgen.JS(sgen.Normalize(s))
			}
		} else {
			r, err := gtfs.ParseRealtime(in, c.Ext.options(c.Zone))
			if err != nil {
				js = "ERROR"
			} else {
				js = rgen.JS(rgen.Normalize(r))
			}
		}
		if !bytes.Equal(in, pristine) {
			k := 0
			for k < len(in) && in[k] == pristine[k] {
				k++
			}
			return vt.FailSig("input-modified", "the parser modified its input: byte %d of %d was %#x and is now %#x (outcome of the call: %.40s)", k, len(in), pristine[k], in[k], js)
		}
		if i == 0 {
			first = js
		} else if js != first {
			return vt.FailSig("nondeterministic", "call #%d on the same bytes differs from call #1: %s", i+1, rgen.FirstDiff(js, first))
		}
	}
	return nil
}

func TestC06Bytes(t *testing.T) {
	rapid.Check(t, func(t *rapid.T) {
		c := CaseC06Bytes{Static: rapid.IntRange(0, 3).Draw(t, "static") != 0, Inherit: rapid.Bool().Draw(t, "inherit")}
		c.Env = genEnv(t)
		var cls []string
		var orig []byte
		if c.Static {
			o := sgen.DefaultGenOpts()
			o.MaxStops, o.MaxTrips, o.MaxStopTimes = 4, 3, 3
			f, _ := sgen.GenFeed(t, o)
			p := sgen.Canonical()
			if rapid.Bool().Draw(t, "comment") {
				p.Comment = rapid.SampledFrom([]string{"x", "generated 2024-01-01 by export tool v1.2", strings.Repeat("archive comment ", 20), strings.Repeat("c", 65535)}).Draw(t, "zipComment")
				cls = append(cls, "archive-comment")
			}
			orig = sgen.Render(f.Tables(), p)
			c.Data = append([]byte(nil), orig...)
			switch rapid.IntRange(0, 5).Draw(t, "damage") {
			case 0: // cut inside the comment / the end-of-central-directory record
				cut := rapid.IntRange(1, len(p.Comment)+30).Draw(t, "cutTail")
				if rapid.Bool().Draw(t, "cutSmall") {
					cut = rapid.IntRange(1, min(len(p.Comment)+1, 50)).Draw(t, "cutTailSmall")
				}
				c.Data = c.Data[:max(0, len(c.Data)-cut)]
				cls = append(cls, "cut-tail")
			case 1:
				c.Data = c.Data[:rapid.IntRange(0, len(c.Data)).Draw(t, "cutAny")]
				cls = append(cls, "cut-anywhere")
			case 2:
				c.Data = mutateBytes(t, c.Data)
				cls = append(cls, "mutated")
			case 3:
				c.Data = append(c.Data, rapid.SliceOfN(rapid.Byte(), 1, 40).Draw(t, "appended")...)
				cls = append(cls, "bytes-appended")
			case 4: // the comment length field says more than there is
				if n := len(c.Data) - len(p.Comment) - 2; n >= 0 {
					c.Data[n] = byte(rapid.IntRange(0, 255).Draw(t, "commentLenLo"))
					c.Data[n+1] = byte(rapid.IntRange(0, 255).Draw(t, "commentLenHi"))
				}
				cls = append(cls, "comment-length-wrong")
			default:
				cls = append(cls, "well-formed")
			}
		} else {
			c.Zone = rapid.SampledFrom([]string{"", "America/New_York"}).Draw(t, "zone")
			c.Ext = genExtSpec(t)
			m, _, _ := genC06Msg(t, c.Zone, c.Ext)
			orig = m.Marshal()
			c.Data = append([]byte(nil), orig...)
			switch rapid.IntRange(0, 2).Draw(t, "damage") {
			case 0:
				c.Data = c.Data[:rapid.IntRange(0, len(c.Data)).Draw(t, "cutAny")]
				cls = append(cls, "cut-anywhere")
			case 1:
				c.Data = mutateBytes(t, c.Data)
				cls = append(cls, "mutated")
			default:
				cls = append(cls, "well-formed")
			}
			cls = append(cls, "realtime")
		}
		c06BytesRec.Eval(cls...)
		if !bytes.Equal(c.Data, orig) {
			c06BytesRec.NontrivialCase(vt.Fingerprint(c), func() any {
				return map[string]any{"static": c.Static, "bytes": len(c.Data), "well_formed_bytes": len(orig), "classes": cls}
			})
		}
		vt.Run(t, c06BytesRec, c, checkC06Bytes)
	})
}

// TestC06Large: two large messages through one options object - an NYCT feed of 20003 entities parsed with stale filtering
// (thousands of entities are skipped), then a feed of as many plain vehicle positions: the second parse must be what it is alone.
func TestC06Large(t *testing.T) {
	for _, n := range []int{20003, 70003} {
		n := n
		t.Run(fmt.Sprint(n), func(outer *testing.T) {
			fail := ""
			defer func() {
				if fail != "" {
					outer.Fatalf("%s", fail)
				}
			}()
			rapid.Check(outer, func(t *rapid.T) {
				zone := rapid.SampledFrom([]string{"", "America/New_York"}).Draw(t, "zone")
				// n unassigned NYCT trips whose first stop time lies before the feed timestamp: every one of them is skipped
				a := &rgen.Msg{Timestamp: rgen.P(uint64(1_900_000_000))}
				for i := 0; i < n; i++ {
					d := rgen.TripDesc{TripID: rgen.P(fmt.Sprintf("%06d_A..N%d", (i*7)%600000, i)), RouteID: rgen.P("A"), StartDate: rgen.P("20231114"),
						Nyct: &rgen.NyctTrip{Direction: rgen.P(int32(1)), IsAssigned: rgen.P(false)}}
					a.Entities = append(a.Entities, rgen.Entity{ID: fmt.Sprintf("t%d", i), TU: &rgen.TripUpdate{Trip: d,
						STUs: []rgen.STU{{StopID: rgen.P("A01N"), Dep: &rgen.Event{Time: rgen.P(int64(1_600_000_000))}}}}})
				}
				b := &rgen.Msg{Timestamp: rgen.P(uint64(1_700_000_000))}
				for i := 0; i < n; i++ {
					b.Entities = append(b.Entities, rgen.Entity{ID: fmt.Sprintf("v%d", i), VP: &rgen.VehiclePos{Vehicle: &rgen.VehDesc{ID: rgen.P(fmt.Sprintf("V%d", i))}, StopID: rgen.P("S1")}})
				}
				c := CaseC06RT{Zone: zone, Ext: ExtSpec{Kind: "nycttrips", Trips: rgen.NyctTripsOpts{FilterStale: true, PreserveM: rapid.Bool().Draw(t, "preserveM")}}, Msgs: []*rgen.Msg{a, b}, Model: true}
				c.Env = genEnv(t)
				c06RTRec.Eval(fmt.Sprintf("large:two-messages-of>=%d-entities", n))
				c06RTRec.NontrivialCase(vt.Fingerprint([]any{zone, n, c.Ext}), func() any {
					return map[string]any{"zone": zone, "entities_each": n, "extension": c.Ext}
				})
				if msg := vt.Try(c06RTRec, c, checkC06RT); msg != "" && fail == "" {
					fail = msg
				}
			})
		})
	}
}
