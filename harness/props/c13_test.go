package props

import (
	"bytes"
	"fmt"
	"reflect"
	"strings"
	"testing"
	"time"

	"github.com/jamespfennell/gtfs"
	"pgregory.net/rapid"

	"verifharness/vt"
)

// ---------------------------------------------------------------------------------------------
// C13: trip and vehicle hashes change exactly when the data changes.
//
// The model below is the harness's own notion of "the data of a trip / vehicle". Two values are
// data-equal iff their models are deeply equal. The observed quantity is the concatenation of
// every Write made to the hash.Hash handed to Trip.Hash / Vehicle.Hash.

type H13Event struct {
	Time  *int64 // unix seconds
	Delay *int64 // whole seconds
	Unc   *int32
}

type H13STU struct {
	Seq      *uint32
	StopID   *string
	Track    *string
	SchedRel int32
	Arr, Dep *H13Event
}

type H13Trip struct {
	ID, RouteID  string
	Dir          uint8
	HasStartDate bool
	StartDate    int64 // unix seconds; meaningful only if HasStartDate
	HasStartTime bool
	StartTime    int64 // seconds; meaningful only if HasStartTime
	SchedRel     int32
	STUs         []H13STU
}

type H13VID struct{ ID, Label, Plate string }

type H13Pos struct {
	Lat, Lon, Bearing *float32
	Odo               *float64
	Speed             *float32
}

type H13Vehicle struct {
	ID         *H13VID
	Trip       *H13Trip
	Pos        *H13Pos
	CurSeq     *uint32
	StopID     *string
	Status     *int32
	Ts         *int64
	Congestion int32
	OccStatus  *int32
	OccPct     *uint32
}

// H13Variant holds everything the hash must ignore.
type H13Variant struct {
	Zone      string
	InMessage bool
	BackRef   bool // trip.Vehicle (resp. vehicle.Trip.Vehicle) set to some vehicle
}

type CaseC13 struct {
	vt.Env
	Kind       string // "copy" | "edit:<name>" | "independent"
	IsVehicle  bool
	TripA      *H13Trip    `json:",omitempty"`
	TripB      *H13Trip    `json:",omitempty"`
	VehA       *H13Vehicle `json:",omitempty"`
	VehB       *H13Vehicle `json:",omitempty"`
	VarA, VarB H13Variant
}

var c13Rec = vt.NewRecorder("C13", "TestC13",
	"pairs of trips / vehicles over a small value domain, built as (copy) a deep copy differing only in pointers, time-zone presentation, in-message flag and back-reference; "+
		"(edit:*) exactly one edit from a catalogue (each field, nil<->zero of each optional, stop time update added/removed/swapped at any index, boundary shift between adjacent strings, absent<->empty event); "+
		"(independent) two independent draws. Oracle: recorded Write stream equal <=> harness's structural data equality; hashing twice is stable. "+
		"Non-trivial = edit pairs, and independent pairs that are data-equal; distinct by fingerprint of the pair")

func init() { registerReplay("C13", "TestC13", checkC13) }

type recordingHash struct{ bytes.Buffer }

func (r *recordingHash) Sum(b []byte) []byte { return b }
func (r *recordingHash) Reset()              { r.Buffer.Reset() }
func (r *recordingHash) Size() int           { return 0 }
func (r *recordingHash) BlockSize() int      { return 1 }

func c13Time(u int64, zone string) time.Time { return time.Unix(u, 0).In(c20Loc(zone)) }

func c13BuildTrip(m *H13Trip, v H13Variant) *gtfs.Trip {
	t := &gtfs.Trip{
		ID: gtfs.TripID{ID: m.ID, RouteID: m.RouteID, DirectionID: gtfs.DirectionID(m.Dir),
			HasStartDate: m.HasStartDate, HasStartTime: m.HasStartTime,
			ScheduleRelationship: gtfs.TripScheduleRelationship(m.SchedRel)},
		IsEntityInMessage: v.InMessage,
	}
	if m.HasStartDate {
		t.ID.StartDate = c13Time(m.StartDate, v.Zone)
	}
	if m.HasStartTime {
		t.ID.StartTime = time.Duration(m.StartTime) * time.Second
	}
	ev := func(e *H13Event) *gtfs.StopTimeEvent {
		if e == nil {
			return nil
		}
		out := &gtfs.StopTimeEvent{}
		if e.Time != nil {
			tm := c13Time(*e.Time, v.Zone)
			out.Time = &tm
		}
		if e.Delay != nil {
			d := time.Duration(*e.Delay) * time.Second
			out.Delay = &d
		}
		if e.Unc != nil {
			u := *e.Unc
			out.Uncertainty = &u
		}
		return out
	}
	for _, s := range m.STUs {
		stu := gtfs.StopTimeUpdate{ScheduleRelationship: gtfs.StopTimeUpdateScheduleRelationship(s.SchedRel), Arrival: ev(s.Arr), Departure: ev(s.Dep)}
		if s.Seq != nil {
			x := *s.Seq
			stu.StopSequence = &x
		}
		if s.StopID != nil {
			x := *s.StopID
			stu.StopID = &x
		}
		if s.Track != nil {
			x := *s.Track
			stu.NyctTrack = &x
		}
		t.StopTimeUpdates = append(t.StopTimeUpdates, stu)
	}
	if v.BackRef {
		lbl := "backref-" + v.Zone
		t.Vehicle = &gtfs.Vehicle{ID: &gtfs.VehicleID{ID: lbl}, Trip: t}
	}
	return t
}

func c13BuildVehicle(m *H13Vehicle, v H13Variant) *gtfs.Vehicle {
	out := &gtfs.Vehicle{IsEntityInMessage: v.InMessage, CongestionLevel: gtfs.CongestionLevel(m.Congestion)}
	if m.ID != nil {
		out.ID = &gtfs.VehicleID{ID: m.ID.ID, Label: m.ID.Label, LicensePlate: m.ID.Plate}
	}
	if m.Trip != nil {
		out.Trip = c13BuildTrip(m.Trip, H13Variant{Zone: v.Zone, InMessage: !v.InMessage})
		if v.BackRef {
			out.Trip.Vehicle = out
		}
	}
	if m.Pos != nil {
		p := &gtfs.Position{}
		cp32 := func(x *float32) *float32 {
			if x == nil {
				return nil
			}
			y := *x
			return &y
		}
		p.Latitude, p.Longitude, p.Bearing, p.Speed = cp32(m.Pos.Lat), cp32(m.Pos.Lon), cp32(m.Pos.Bearing), cp32(m.Pos.Speed)
		if m.Pos.Odo != nil {
			y := *m.Pos.Odo
			p.Odometer = &y
		}
		out.Position = p
	}
	if m.CurSeq != nil {
		x := *m.CurSeq
		out.CurrentStopSequence = &x
	}
	if m.StopID != nil {
		x := *m.StopID
		out.StopID = &x
	}
	if m.Status != nil {
		x := gtfs.CurrentStatus(*m.Status)
		out.CurrentStatus = &x
	}
	if m.Ts != nil {
		x := c13Time(*m.Ts, v.Zone)
		out.Timestamp = &x
	}
	if m.OccStatus != nil {
		x := gtfs.OccupancyStatus(*m.OccStatus)
		out.OccupancyStatus = &x
	}
	if m.OccPct != nil {
		x := *m.OccPct
		out.OccupancyPercentage = &x
	}
	return out
}

func c13CanonTrip(m *H13Trip) *H13Trip {
	if m == nil {
		return nil
	}
	c := *m
	if !c.HasStartDate {
		c.StartDate = 0
	}
	if !c.HasStartTime {
		c.StartTime = 0
	}
	if len(c.STUs) == 0 {
		c.STUs = nil
	}
	return &c
}

func c13Stream(c CaseC13, second bool) []byte {
	var h recordingHash
	if c.IsVehicle {
		m, v := c.VehA, c.VarA
		if second {
			m, v = c.VehB, c.VarB
		}
		c13BuildVehicle(m, v).Hash(&h)
	} else {
		m, v := c.TripA, c.VarA
		if second {
			m, v = c.TripB, c.VarB
		}
		c13BuildTrip(m, v).Hash(&h)
	}
	return append([]byte(nil), h.Bytes()...)
}

func c13DataEqual(c CaseC13) bool {
	if c.IsVehicle {
		a, b := *c.VehA, *c.VehB
		a.Trip, b.Trip = c13CanonTrip(a.Trip), c13CanonTrip(b.Trip)
		return reflect.DeepEqual(a, b)
	}
	return reflect.DeepEqual(c13CanonTrip(c.TripA), c13CanonTrip(c.TripB))
}

func checkC13(c CaseC13) error {
	if c.IsVehicle && (c.VehA == nil || c.VehB == nil) || !c.IsVehicle && (c.TripA == nil || c.TripB == nil) {
		return fmt.Errorf("malformed case")
	}
	sa, sb := c13Stream(c, false), c13Stream(c, true)
	if sa2 := c13Stream(c, false); !bytes.Equal(sa, sa2) {
		return vt.Failf("hashing the same value twice gives different streams:\n%x\n%x", sa, sa2)
	}
	eq := c13DataEqual(c)
	if eq && !bytes.Equal(sa, sb) {
		return vt.FailSig("equal-data-different-hash", "data-equal values (kind %s) hash differently:\n%x\n%x", c.Kind, sa, sb)
	}
	if !eq && bytes.Equal(sa, sb) {
		return vt.FailSig("collision", "values differing in data (kind %s) receive the same hash input:\n%x", c.Kind, sa)
	}
	return nil
}

// ---- generators

var c13Strs = []string{"", "a", "b", "ab", "bc", "abc", "c", "A1", "\x00", "é", "a\x00", "\x00b", strings.Repeat("long-", 60), strings.Repeat("long-", 60) + "x", strings.Repeat("0123456789abcdef", 4200)}

func g13Str(t *rapid.T, l string) string { return rapid.SampledFrom(c13Strs).Draw(t, l) }
func g13OptStr(t *rapid.T, l string) *string {
	if rapid.Bool().Draw(t, l+"?") {
		s := g13Str(t, l)
		return &s
	}
	return nil
}
func g13OptI64(t *rapid.T, l string, vals []int64) *int64 {
	if rapid.Bool().Draw(t, l+"?") {
		v := rapid.SampledFrom(vals).Draw(t, l)
		return &v
	}
	return nil
}
func g13OptU32(t *rapid.T, l string) *uint32 {
	if rapid.Bool().Draw(t, l+"?") {
		v := rapid.SampledFrom([]uint32{0, 1, 2, 256, 1 << 31}).Draw(t, l)
		return &v
	}
	return nil
}
func g13OptI32(t *rapid.T, l string, vals []int32) *int32 {
	if rapid.Bool().Draw(t, l+"?") {
		v := rapid.SampledFrom(vals).Draw(t, l)
		return &v
	}
	return nil
}
func g13OptF32(t *rapid.T, l string) *float32 {
	if rapid.Bool().Draw(t, l+"?") {
		v := rapid.SampledFrom([]float32{0, 1, -1, 40.75, -73.99, 1e-30}).Draw(t, l)
		return &v
	}
	return nil
}

var c13Times = []int64{0, 1, -1, 1700000000, 1700000001, 1 << 33}
var c13Delays = []int64{0, 1, -1, 60, -3600, 1 << 31}

func g13Event(t *rapid.T, l string) *H13Event {
	if !rapid.Bool().Draw(t, l+"?") {
		return nil
	}
	return &H13Event{Time: g13OptI64(t, l+"Time", c13Times), Delay: g13OptI64(t, l+"Delay", c13Delays),
		Unc: g13OptI32(t, l+"Unc", []int32{0, 1, -1, 30})}
}

func g13STU(t *rapid.T) H13STU {
	return H13STU{Seq: g13OptU32(t, "seq"), StopID: g13OptStr(t, "stopID"), Track: g13OptStr(t, "track"),
		SchedRel: rapid.SampledFrom([]int32{0, 1, 2, 3}).Draw(t, "stuRel"), Arr: g13Event(t, "arr"), Dep: g13Event(t, "dep")}
}

func g13Trip(t *rapid.T) *H13Trip {
	m := &H13Trip{ID: g13Str(t, "id"), RouteID: g13Str(t, "route"), Dir: uint8(rapid.IntRange(0, 2).Draw(t, "dir")),
		SchedRel: rapid.SampledFrom([]int32{0, 1, 2, 3, 5}).Draw(t, "rel")}
	if m.HasStartDate = rapid.Bool().Draw(t, "hasDate"); m.HasStartDate {
		m.StartDate = rapid.SampledFrom([]int64{0, 86400, 1699920000, 1700006400}).Draw(t, "date")
	}
	if m.HasStartTime = rapid.Bool().Draw(t, "hasTime"); m.HasStartTime {
		m.StartTime = rapid.SampledFrom([]int64{0, 1, 3600, 86399, 90000}).Draw(t, "time")
	}
	n := rapid.IntRange(0, 4).Draw(t, "nSTU")
	long := rapid.IntRange(0, 11).Draw(t, "longList") == 0
	if long {
		// size class: long runs of updates, most of them identified by sequence only (no strings between the numbers)
		n = rapid.SampledFrom([]int{9, 17, 33, 70, 130, 260, 520, 1030, 2063}).Draw(t, "longN")
	}
	for i := 0; i < n; i++ {
		u := g13STU(t)
		if long && rapid.IntRange(0, 9).Draw(t, "seqOnly") != 0 {
			u.StopID, u.Track = nil, nil
		}
		m.STUs = append(m.STUs, u)
	}
	return m
}

func g13Vehicle(t *rapid.T) *H13Vehicle {
	m := &H13Vehicle{}
	if rapid.Bool().Draw(t, "vid?") {
		m.ID = &H13VID{ID: g13Str(t, "vid"), Label: g13Str(t, "label"), Plate: g13Str(t, "plate")}
	}
	if rapid.Bool().Draw(t, "vtrip?") {
		m.Trip = g13Trip(t)
	}
	if rapid.Bool().Draw(t, "pos?") {
		p := &H13Pos{Lat: g13OptF32(t, "lat"), Lon: g13OptF32(t, "lon"), Bearing: g13OptF32(t, "bearing"), Speed: g13OptF32(t, "speed")}
		if rapid.Bool().Draw(t, "odo?") {
			v := rapid.SampledFrom([]float64{0, 1, 1234.5, -1}).Draw(t, "odo")
			p.Odo = &v
		}
		m.Pos = p
	}
	m.CurSeq = g13OptU32(t, "curSeq")
	m.StopID = g13OptStr(t, "vStop")
	m.Status = g13OptI32(t, "status", []int32{0, 1, 2})
	m.Ts = g13OptI64(t, "ts", c13Times)
	m.Congestion = rapid.SampledFrom([]int32{0, 1, 2, 4}).Draw(t, "congestion")
	m.OccStatus = g13OptI32(t, "occ", []int32{0, 1, 5})
	m.OccPct = g13OptU32(t, "occPct")
	return m
}

func cloneVia[T any](v T) T {
	var out T
	b, _ := jsonMarshal(v)
	jsonUnmarshal(b, &out)
	return out
}

// edits on a trip; each returns false when it does not apply.
type tripEdit struct {
	name string
	f    func(t *rapid.T, m *H13Trip) bool
}

func toggleStr(p **string) {
	if *p == nil {
		s := ""
		*p = &s
	} else if **p == "" {
		*p = nil
	} else {
		s := ""
		*p = &s
	}
}

func pickSTU(t *rapid.T, m *H13Trip) *H13STU {
	if len(m.STUs) == 0 {
		return nil
	}
	i := rapid.IntRange(0, len(m.STUs)-1).Draw(t, "stuIndex")
	switch rapid.IntRange(0, 5).Draw(t, "stuWhere") {
	case 0, 1: // the last update: whatever is done in blocks or chunks has its remainder here
		i = len(m.STUs) - 1
	case 2:
		i = 0
	}
	return &m.STUs[i]
}

func pickEvent(t *rapid.T, s *H13STU) **H13Event {
	if rapid.Bool().Draw(t, "useDeparture") {
		return &s.Dep
	}
	return &s.Arr
}

var c13TripEdits = []tripEdit{
	{"id+", func(t *rapid.T, m *H13Trip) bool { m.ID += "x"; return true }},
	{"route+", func(t *rapid.T, m *H13Trip) bool { m.RouteID += "x"; return true }},
	{"id-route-boundary", func(t *rapid.T, m *H13Trip) bool {
		if len(m.ID) == 0 {
			if len(m.RouteID) == 0 {
				return false
			}
			m.ID, m.RouteID = m.RouteID[:1], m.RouteID[1:]
			return true
		}
		m.ID, m.RouteID = m.ID[:len(m.ID)-1], m.ID[len(m.ID)-1:]+m.RouteID
		return true
	}},
	{"dir", func(t *rapid.T, m *H13Trip) bool { m.Dir = (m.Dir + 1) % 3; return true }},
	{"hasDate-toggle-zero", func(t *rapid.T, m *H13Trip) bool {
		if m.HasStartDate && m.StartDate != 0 {
			m.StartDate = 0
			return true
		}
		m.HasStartDate = !m.HasStartDate
		m.StartDate = 0
		return true
	}},
	{"date+", func(t *rapid.T, m *H13Trip) bool { m.HasStartDate = true; m.StartDate += 86400; return true }},
	{"hasTime-toggle-zero", func(t *rapid.T, m *H13Trip) bool {
		if m.HasStartTime && m.StartTime != 0 {
			m.StartTime = 0
			return true
		}
		m.HasStartTime = !m.HasStartTime
		m.StartTime = 0
		return true
	}},
	{"time+", func(t *rapid.T, m *H13Trip) bool { m.HasStartTime = true; m.StartTime++; return true }},
	{"rel", func(t *rapid.T, m *H13Trip) bool { m.SchedRel = (m.SchedRel + 1) % 4; return true }},
	{"stu-append", func(t *rapid.T, m *H13Trip) bool { m.STUs = append(m.STUs, g13STU(t)); return true }},
	{"stu-append-empty", func(t *rapid.T, m *H13Trip) bool { m.STUs = append(m.STUs, H13STU{}); return true }},
	{"stu-remove", func(t *rapid.T, m *H13Trip) bool {
		if len(m.STUs) == 0 {
			return false
		}
		i := rapid.IntRange(0, len(m.STUs)-1).Draw(t, "rm")
		m.STUs = append(append([]H13STU{}, m.STUs[:i]...), m.STUs[i+1:]...)
		return true
	}},
	{"stu-swap", func(t *rapid.T, m *H13Trip) bool {
		if len(m.STUs) < 2 {
			return false
		}
		i := rapid.IntRange(0, len(m.STUs)-2).Draw(t, "sw")
		m.STUs[i], m.STUs[i+1] = m.STUs[i+1], m.STUs[i]
		return true
	}},
	{"stu-seq-nil-zero", func(t *rapid.T, m *H13Trip) bool {
		s := pickSTU(t, m)
		if s == nil {
			return false
		}
		if s.Seq == nil {
			z := uint32(0)
			s.Seq = &z
		} else if *s.Seq == 0 {
			s.Seq = nil
		} else {
			z := uint32(0)
			s.Seq = &z
		}
		return true
	}},
	{"stu-seq+", func(t *rapid.T, m *H13Trip) bool {
		s := pickSTU(t, m)
		if s == nil {
			return false
		}
		v := uint32(1)
		if s.Seq != nil {
			v = *s.Seq + 1
		}
		s.Seq = &v
		return true
	}},
	{"stu-stop-nil-empty", func(t *rapid.T, m *H13Trip) bool {
		s := pickSTU(t, m)
		if s == nil {
			return false
		}
		toggleStr(&s.StopID)
		return true
	}},
	{"stu-stop+", func(t *rapid.T, m *H13Trip) bool {
		s := pickSTU(t, m)
		if s == nil {
			return false
		}
		v := "x"
		if s.StopID != nil {
			v = *s.StopID + "x"
		}
		s.StopID = &v
		return true
	}},
	{"stu-track-nil-empty", func(t *rapid.T, m *H13Trip) bool {
		s := pickSTU(t, m)
		if s == nil {
			return false
		}
		toggleStr(&s.Track)
		return true
	}},
	{"stu-track+", func(t *rapid.T, m *H13Trip) bool {
		s := pickSTU(t, m)
		if s == nil {
			return false
		}
		v := "x"
		if s.Track != nil {
			v = *s.Track + "x"
		}
		s.Track = &v
		return true
	}},
	{"stu-stop-track-boundary", func(t *rapid.T, m *H13Trip) bool {
		s := pickSTU(t, m)
		if s == nil || s.StopID == nil || s.Track == nil || len(*s.StopID) == 0 {
			return false
		}
		a, b := (*s.StopID)[:len(*s.StopID)-1], (*s.StopID)[len(*s.StopID)-1:]+*s.Track
		s.StopID, s.Track = &a, &b
		return true
	}},
	{"stu-stop-track-move", func(t *rapid.T, m *H13Trip) bool {
		// a value moving from stop id to track: (x, nil) -> (nil, x)
		s := pickSTU(t, m)
		if s == nil || s.StopID == nil || s.Track != nil {
			return false
		}
		s.Track, s.StopID = s.StopID, nil
		return true
	}},
	{"stu-rel", func(t *rapid.T, m *H13Trip) bool {
		s := pickSTU(t, m)
		if s == nil {
			return false
		}
		s.SchedRel = (s.SchedRel + 1) % 4
		return true
	}},
	{"event-nil-empty", func(t *rapid.T, m *H13Trip) bool {
		s := pickSTU(t, m)
		if s == nil {
			return false
		}
		e := pickEvent(t, s)
		if *e == nil {
			*e = &H13Event{}
		} else if (*e).Time == nil && (*e).Delay == nil && (*e).Unc == nil {
			*e = nil
		} else {
			*e = &H13Event{}
		}
		return true
	}},
	{"event-time-nil-zero", func(t *rapid.T, m *H13Trip) bool {
		return editEventField(t, m, func(e *H13Event) {
			if e.Time == nil {
				z := int64(0)
				e.Time = &z
			} else if *e.Time == 0 {
				e.Time = nil
			} else {
				z := int64(0)
				e.Time = &z
			}
		})
	}},
	{"event-time+", func(t *rapid.T, m *H13Trip) bool {
		return editEventField(t, m, func(e *H13Event) {
			v := int64(1)
			if e.Time != nil {
				v = *e.Time + 1
			}
			e.Time = &v
		})
	}},
	{"event-delay-nil-zero", func(t *rapid.T, m *H13Trip) bool {
		return editEventField(t, m, func(e *H13Event) {
			if e.Delay == nil {
				z := int64(0)
				e.Delay = &z
			} else if *e.Delay == 0 {
				e.Delay = nil
			} else {
				z := int64(0)
				e.Delay = &z
			}
		})
	}},
	{"event-delay+", func(t *rapid.T, m *H13Trip) bool {
		return editEventField(t, m, func(e *H13Event) {
			v := int64(1)
			if e.Delay != nil {
				v = *e.Delay + 1
			}
			e.Delay = &v
		})
	}},
	{"event-delay+2^32s", func(t *rapid.T, m *H13Trip) bool {
		// two delays that agree in their low 32 bits when counted in seconds
		return editEventField(t, m, func(e *H13Event) {
			v := int64(1) << 32
			if e.Delay != nil && *e.Delay < 1<<32 {
				v = *e.Delay + 1<<32
			} else if e.Delay != nil {
				v = *e.Delay - 1<<32
			}
			e.Delay = &v
		})
	}},
	{"event-unc-nil-zero", func(t *rapid.T, m *H13Trip) bool {
		return editEventField(t, m, func(e *H13Event) {
			if e.Unc == nil {
				z := int32(0)
				e.Unc = &z
			} else if *e.Unc == 0 {
				e.Unc = nil
			} else {
				z := int32(0)
				e.Unc = &z
			}
		})
	}},
	{"event-unc+", func(t *rapid.T, m *H13Trip) bool {
		return editEventField(t, m, func(e *H13Event) {
			v := int32(1)
			if e.Unc != nil {
				v = *e.Unc + 1
			}
			e.Unc = &v
		})
	}},
	{"event-time-to-delay", func(t *rapid.T, m *H13Trip) bool {
		// the same number moving between the time and the delay slot
		ok := false
		r := editEventField(t, m, func(e *H13Event) {
			if e.Time != nil && e.Delay == nil {
				e.Delay, e.Time = e.Time, nil
				ok = true
			}
		})
		return r && ok
	}},
	{"arr-dep-swap", func(t *rapid.T, m *H13Trip) bool {
		s := pickSTU(t, m)
		if s == nil || reflect.DeepEqual(s.Arr, s.Dep) {
			return false
		}
		s.Arr, s.Dep = s.Dep, s.Arr
		return true
	}},
}

func editEventField(t *rapid.T, m *H13Trip, f func(e *H13Event)) bool {
	s := pickSTU(t, m)
	if s == nil {
		return false
	}
	e := pickEvent(t, s)
	if *e == nil {
		return false
	}
	f(*e)
	return true
}

type vehEdit struct {
	name string
	f    func(t *rapid.T, m *H13Vehicle) bool
}

func toggleU32(p **uint32) {
	if *p == nil || **p != 0 {
		z := uint32(0)
		*p = &z
	} else {
		*p = nil
	}
}
func toggleI32(p **int32) {
	if *p == nil || **p != 0 {
		z := int32(0)
		*p = &z
	} else {
		*p = nil
	}
}
func toggleF32(p **float32) {
	if *p == nil || **p != 0 {
		z := float32(0)
		*p = &z
	} else {
		*p = nil
	}
}

var c13VehEdits = []vehEdit{
	{"vid-nil-toggle", func(t *rapid.T, m *H13Vehicle) bool {
		if m.ID == nil {
			m.ID = &H13VID{}
		} else if *m.ID == (H13VID{}) {
			m.ID = nil
		} else {
			m.ID = &H13VID{}
		}
		return true
	}},
	{"vid+", func(t *rapid.T, m *H13Vehicle) bool {
		if m.ID == nil {
			m.ID = &H13VID{}
		}
		switch rapid.IntRange(0, 2).Draw(t, "which") {
		case 0:
			m.ID.ID += "x"
		case 1:
			m.ID.Label += "x"
		default:
			m.ID.Plate += "x"
		}
		return true
	}},
	{"vid-boundary", func(t *rapid.T, m *H13Vehicle) bool {
		if m.ID == nil {
			return false
		}
		if len(m.ID.ID) > 0 {
			n := len(m.ID.ID) - 1
			m.ID.ID, m.ID.Label = m.ID.ID[:n], m.ID.ID[n:]+m.ID.Label
			return true
		}
		if len(m.ID.Label) > 0 {
			n := len(m.ID.Label) - 1
			m.ID.Label, m.ID.Plate = m.ID.Label[:n], m.ID.Label[n:]+m.ID.Plate
			return true
		}
		return false
	}},
	{"vid-rotate", func(t *rapid.T, m *H13Vehicle) bool {
		if m.ID == nil || (m.ID.ID == m.ID.Label && m.ID.Label == m.ID.Plate) {
			return false
		}
		m.ID.ID, m.ID.Label, m.ID.Plate = m.ID.Plate, m.ID.ID, m.ID.Label
		return true
	}},
	{"trip-nil-toggle", func(t *rapid.T, m *H13Vehicle) bool {
		empty := &H13Trip{}
		if m.Trip == nil {
			m.Trip = empty
		} else if reflect.DeepEqual(c13CanonTrip(m.Trip), c13CanonTrip(empty)) {
			m.Trip = nil
		} else {
			m.Trip = empty
		}
		return true
	}},
	{"trip-edit", func(t *rapid.T, m *H13Vehicle) bool {
		if m.Trip == nil {
			return false
		}
		e := rapid.SampledFrom(c13TripEdits).Draw(t, "tripEdit")
		return e.f(t, m.Trip)
	}},
	{"pos-nil-toggle", func(t *rapid.T, m *H13Vehicle) bool {
		if m.Pos == nil {
			m.Pos = &H13Pos{}
		} else if *m.Pos == (H13Pos{}) {
			m.Pos = nil
		} else {
			m.Pos = &H13Pos{}
		}
		return true
	}},
	{"pos-field-nil-zero", func(t *rapid.T, m *H13Vehicle) bool {
		if m.Pos == nil {
			return false
		}
		switch rapid.IntRange(0, 4).Draw(t, "which") {
		case 0:
			toggleF32(&m.Pos.Lat)
		case 1:
			toggleF32(&m.Pos.Lon)
		case 2:
			toggleF32(&m.Pos.Bearing)
		case 3:
			toggleF32(&m.Pos.Speed)
		default:
			if m.Pos.Odo == nil || *m.Pos.Odo != 0 {
				z := float64(0)
				m.Pos.Odo = &z
			} else {
				m.Pos.Odo = nil
			}
		}
		return true
	}},
	{"pos-field+", func(t *rapid.T, m *H13Vehicle) bool {
		if m.Pos == nil {
			return false
		}
		bump := func(p **float32) {
			v := float32(1)
			if *p != nil {
				v = **p + 1
			}
			*p = &v
		}
		switch rapid.IntRange(0, 4).Draw(t, "which") {
		case 0:
			bump(&m.Pos.Lat)
		case 1:
			bump(&m.Pos.Lon)
		case 2:
			bump(&m.Pos.Bearing)
		case 3:
			bump(&m.Pos.Speed)
		default:
			v := float64(1)
			if m.Pos.Odo != nil {
				v = *m.Pos.Odo + 1
			}
			m.Pos.Odo = &v
		}
		return true
	}},
	{"pos-lat-lon-swap", func(t *rapid.T, m *H13Vehicle) bool {
		if m.Pos == nil || reflect.DeepEqual(m.Pos.Lat, m.Pos.Lon) {
			return false
		}
		m.Pos.Lat, m.Pos.Lon = m.Pos.Lon, m.Pos.Lat
		return true
	}},
	{"curseq-nil-zero", func(t *rapid.T, m *H13Vehicle) bool { toggleU32(&m.CurSeq); return true }},
	{"curseq+", func(t *rapid.T, m *H13Vehicle) bool {
		v := uint32(1)
		if m.CurSeq != nil {
			v = *m.CurSeq + 1
		}
		m.CurSeq = &v
		return true
	}},
	{"vstop-nil-empty", func(t *rapid.T, m *H13Vehicle) bool { toggleStr(&m.StopID); return true }},
	{"vstop+", func(t *rapid.T, m *H13Vehicle) bool {
		v := "x"
		if m.StopID != nil {
			v = *m.StopID + "x"
		}
		m.StopID = &v
		return true
	}},
	{"status-nil-zero", func(t *rapid.T, m *H13Vehicle) bool { toggleI32(&m.Status); return true }},
	{"status+", func(t *rapid.T, m *H13Vehicle) bool {
		v := int32(1)
		if m.Status != nil {
			v = (*m.Status + 1) % 3
		}
		m.Status = &v
		return true
	}},
	{"ts-nil-zero", func(t *rapid.T, m *H13Vehicle) bool {
		if m.Ts == nil || *m.Ts != 0 {
			z := int64(0)
			m.Ts = &z
		} else {
			m.Ts = nil
		}
		return true
	}},
	{"ts+", func(t *rapid.T, m *H13Vehicle) bool {
		v := int64(1)
		if m.Ts != nil {
			v = *m.Ts + 1
		}
		m.Ts = &v
		return true
	}},
	{"congestion", func(t *rapid.T, m *H13Vehicle) bool { m.Congestion = (m.Congestion + 1) % 5; return true }},
	{"occ-nil-zero", func(t *rapid.T, m *H13Vehicle) bool { toggleI32(&m.OccStatus); return true }},
	{"occ+", func(t *rapid.T, m *H13Vehicle) bool {
		v := int32(1)
		if m.OccStatus != nil {
			v = (*m.OccStatus + 1) % 7
		}
		m.OccStatus = &v
		return true
	}},
	{"occpct-nil-zero", func(t *rapid.T, m *H13Vehicle) bool { toggleU32(&m.OccPct); return true }},
	{"occpct+", func(t *rapid.T, m *H13Vehicle) bool {
		v := uint32(1)
		if m.OccPct != nil {
			v = *m.OccPct + 1
		}
		m.OccPct = &v
		return true
	}},
	{"status-to-occ", func(t *rapid.T, m *H13Vehicle) bool {
		// the same number moving between two adjacent optional enum slots
		if m.Status == nil || m.OccStatus != nil {
			return false
		}
		m.OccStatus, m.Status = m.Status, nil
		return true
	}},
}

func g13Variant(t *rapid.T, l string) H13Variant {
	return H13Variant{Zone: rapid.SampledFrom([]string{"UTC", "America/New_York", "Asia/Kathmandu", "fixed"}).Draw(t, l+"Zone"),
		InMessage: rapid.Bool().Draw(t, l+"InMsg"), BackRef: rapid.Bool().Draw(t, l+"BackRef")}
}

func genC13(t *rapid.T) CaseC13 {
	c := CaseC13{IsVehicle: rapid.Bool().Draw(t, "isVehicle"), VarA: g13Variant(t, "a"), VarB: g13Variant(t, "b")}
	c.Env = genEnv(t)
	mode := rapid.IntRange(0, 9).Draw(t, "mode")
	switch {
	case mode <= 1:
		c.Kind = "copy"
	case mode <= 7:
		c.Kind = "edit"
	default:
		c.Kind = "independent"
	}
	if c.IsVehicle {
		c.VehA = g13Vehicle(t)
		switch c.Kind {
		case "copy":
			c.VehB = cloneVia(c.VehA)
		case "independent":
			c.VehB = g13Vehicle(t)
		default:
			c.VehB = cloneVia(c.VehA)
			e := rapid.SampledFrom(c13VehEdits).Draw(t, "vehEdit")
			if e.f(t, c.VehB) {
				c.Kind = "edit:veh:" + e.name
			} else {
				c.Kind = "copy"
			}
		}
	} else {
		c.TripA = g13Trip(t)
		switch c.Kind {
		case "copy":
			c.TripB = cloneVia(c.TripA)
		case "independent":
			c.TripB = g13Trip(t)
		default:
			c.TripB = cloneVia(c.TripA)
			e := rapid.SampledFrom(c13TripEdits).Draw(t, "tripEdit")
			if e.f(t, c.TripB) {
				c.Kind = "edit:trip:" + e.name
			} else {
				c.Kind = "copy"
			}
		}
	}
	return c
}

func TestC13(t *testing.T) {
	rapid.Check(t, func(t *rapid.T) {
		c := genC13(t)
		eq := c13DataEqual(c)
		cls := c.Kind
		if eq {
			cls += "/equal"
		} else {
			cls += "/different"
		}
		c13Rec.Eval(cls)
		if len(c.Kind) > 5 && c.Kind[:5] == "edit:" || (c.Kind == "independent" && eq) {
			c13Rec.NontrivialCase(vt.Fingerprint(c), func() any { return c })
		}
		vt.Run(t, c13Rec, c, checkC13)
	})
}

// TestC13Large: trips with thousands to tens of thousands of stop time updates (beyond 65,536), copied and then edited in ONE
// stop time update - the last, the first or any: whatever hashes long lists in blocks, in parallel or through fixed buffers must
// still see every update. Every size runs in every tier.
func TestC13Large(t *testing.T) {
	for _, n := range []int{9000, 65537, 70001} {
		n := n
		t.Run(fmt.Sprint(n), func(outer *testing.T) {
			fail := ""
			defer func() {
				if fail != "" {
					outer.Fatalf("%s", fail)
				}
			}()
			rapid.Check(outer, func(t *rapid.T) {
				c := CaseC13{IsVehicle: false, VarA: g13Variant(t, "a"), VarB: g13Variant(t, "b")}
				c.Env = genEnv(t)
				c.TripA = g13Trip(t)
				tmpl := []H13STU{g13STU(t), g13STU(t), g13STU(t)}
				for i := len(c.TripA.STUs); i < n; i++ {
					u := tmpl[i%3]
					s := uint32(i)
					u.Seq = &s
					c.TripA.STUs = append(c.TripA.STUs, u)
				}
				c.TripB = cloneVia(c.TripA)
				c.Kind = "copy"
				if rapid.IntRange(0, 5).Draw(t, "edit?") != 0 {
					var stuEdits []tripEdit
					for _, e := range c13TripEdits {
						if strings.HasPrefix(e.name, "stu-") || strings.HasPrefix(e.name, "event-") || e.name == "arr-dep-swap" {
							stuEdits = append(stuEdits, e)
						}
					}
					e := rapid.SampledFrom(stuEdits).Draw(t, "tripEdit")
					if e.f(t, c.TripB) {
						c.Kind = "edit:trip:" + e.name
					}
				}
				c13Rec.Eval(fmt.Sprintf("large:stop-time-updates>=%d", n), "large:"+c.Kind)
				c13Rec.NontrivialCase(vt.Fingerprint([]any{n, c.Kind, c.VarA, c.VarB, len(c.TripB.STUs)}), func() any {
					return map[string]any{"stop_time_updates": n, "kind": c.Kind}
				})
				if msg := vt.Try(c13Rec, c, checkC13); msg != "" && fail == "" {
					fail = msg
				}
			})
		})
	}
}
