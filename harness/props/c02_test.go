package props

import (
	"fmt"
	"testing"

	"github.com/jamespfennell/gtfs"
	"pgregory.net/rapid"

	"verifharness/rgen"
	"verifharness/vt"
)

// ---------------------------------------------------------------------------------------------
// C02: realtime parse transcribes every wire field faithfully, in the configured zone.

type CaseRT struct {
	vt.Env
	Zone string
	Msg  *rgen.Msg
	// Primers are parsed (each with its own fresh options) before every parse of Msg; their results are discarded. The
	// parse of Msg must not depend on them: whatever the library keeps between calls (pools, caches, package-level
	// variables) must not show in a result.
	Primers []Primer `json:",omitempty"`
}

// Primer is an earlier, unrelated ParseRealtime call.
type Primer struct {
	Ext ExtSpec
	Msg *rgen.Msg
}

// crossLinked returns a variant of m in which trips and vehicles that m leaves unlinked are linked to each other (and every
// vehicle position without a trip gets one): an earlier feed about the same trips and vehicles in another state.
func crossLinked(m *rgen.Msg) *rgen.Msg {
	v := cloneVia(m)
	var tus []*rgen.TripUpdate
	var vps []*rgen.VehiclePos
	for i := range v.Entities {
		if tu := v.Entities[i].TU; tu != nil && tu.Vehicle == nil {
			tus = append(tus, tu)
		}
		if vp := v.Entities[i].VP; vp != nil && vp.Trip == nil && vp.Vehicle != nil {
			vps = append(vps, vp)
		}
	}
	for i := 0; i < len(tus) && i < len(vps); i++ {
		d := *vps[i].Vehicle
		tus[i].Vehicle = &d
		td := tus[i].Trip
		vps[i].Trip = &td
	}
	// trips still without a vehicle get the positions that have neither a descriptor nor a trip (vehicles without any identity
	// can only be linked from their own entity)
	k := min(len(tus), len(vps))
	for i := range v.Entities {
		if vp := v.Entities[i].VP; vp != nil && vp.Vehicle == nil && vp.Trip == nil && k < len(tus) {
			td := tus[k].Trip
			vp.Trip = &td
			k++
		}
	}
	return v
}

// genPrimers draws (one time in five) 1-3 earlier calls: a cross-linked variant of the target, NYCT trips feeds parsed with
// stale filtering (entities are skipped), elevator alert feeds parsed with deduplication (entities are skipped and merged).
func genPrimers(t *rapid.T, zone string, target *rgen.Msg) []Primer {
	if rapid.IntRange(0, 4).Draw(t, "primers?") != 0 {
		return nil
	}
	var ps []Primer
	for i := rapid.IntRange(1, 3).Draw(t, "nPrimers"); i > 0; i-- {
		switch rapid.IntRange(0, 3).Draw(t, "primerKind") {
		case 0:
			ps = append(ps, Primer{Ext: ExtSpec{Kind: "nil"}, Msg: crossLinked(target)})
		case 1:
			m, _, _, _ := genNyctMsg(t, zone)
			ps = append(ps, Primer{Ext: ExtSpec{Kind: "nycttrips", Trips: rgen.NyctTripsOpts{FilterStale: true, PreserveM: rapid.Bool().Draw(t, "primerPreserveM")}}, Msg: m})
		case 2:
			c, _ := genC17(t)
			ps = append(ps, Primer{Ext: ExtSpec{Kind: "nyctalerts", Alerts: c.Opts}, Msg: c.Msg})
		default:
			// the target itself with every NYCT trips option on (plain entities are untouched by it, the call's bookkeeping is not)
			ps = append(ps, Primer{Ext: ExtSpec{Kind: "nycttrips", Trips: rgen.NyctTripsOpts{FilterStale: true}}, Msg: crossLinked(target)})
		}
	}
	return ps
}

var c02Rec = vt.NewRecorder("C02", "TestC02",
	"conflict-free messages from a typed model (distinct trip descriptors over every presence combination of trip_id/route_id/direction/start_time/start_date/schedule_relationship; "+
		"vehicles with id, label-only, plate-only or no descriptor; trip updates, vehicle positions, alerts in generated order; every optional field independently present/absent; "+
		"full numeric ranges incl. 0, negatives, 2^31, 2^62, DST-edge timestamps) x 11 zone options (nil, UTC, fixed offsets, DST zones). "+
		"Oracle: independent reference transcription (rgen.Expect). Non-trivial = >=2 entities of >=2 kinds with >=1 optional field present and >=1 absent; distinct by fingerprint of (zone, message)")

func init() { registerReplay("C02", "TestC02", checkC02) }

func parseRT(c CaseRT, ext func() *gtfs.ParseRealtimeOptions) (*gtfs.Realtime, error) {
	for _, p := range c.Primers {
		if p.Msg != nil {
			gtfs.ParseRealtime(p.Msg.Marshal(), p.Ext.options(c.Zone))
		}
	}
	opts := &gtfs.ParseRealtimeOptions{Timezone: rgen.Loc(c.Zone)}
	if ext != nil {
		opts = ext()
		opts.Timezone = rgen.Loc(c.Zone)
	}
	return gtfs.ParseRealtime(c.Msg.Marshal(), opts)
}

func checkC02(c CaseRT) error {
	if c.Msg == nil {
		return vt.Failf("malformed case")
	}
	r, err := parseRT(c, nil)
	if err != nil {
		return vt.Failf("ParseRealtime rejected a well-formed message: %v", err)
	}
	got := rgen.Normalize(r)
	want := rgen.Expect(c.Msg, c.Zone, rgen.ExpectOpts{})
	if err := rgen.Compare(got, want); err != nil {
		return vt.Failf("zone %q: %v", c.Zone, err)
	}
	return nil
}

func rtClasses(c CaseRT, info rgen.MsgInfo) (classes []string, nontrivial bool) {
	present, absent := 0, 0
	cnt := func(p bool) {
		if p {
			present++
		} else {
			absent++
		}
	}
	cnt(c.Msg.Timestamp != nil)
	for i := range c.Msg.Entities {
		e := &c.Msg.Entities[i]
		if e.TU != nil {
			cnt(e.TU.Vehicle != nil)
			cnt(e.TU.Trip.StartDate != nil)
			cnt(e.TU.Trip.StartTime != nil)
			for _, s := range e.TU.STUs {
				cnt(s.Arr != nil)
				cnt(s.Dep != nil)
				cnt(s.StopID != nil)
				if s.Arr != nil && s.Arr.Delay != nil || s.Dep != nil && s.Dep.Delay != nil {
					classes = append(classes, "delay-set")
				}
				if s.Arr != nil && s.Arr.Unc != nil || s.Dep != nil && s.Dep.Unc != nil {
					classes = append(classes, "uncertainty-set")
				}
			}
			if e.TU.Trip.StartDate != nil && e.TU.Trip.StartTime != nil {
				classes = append(classes, "tu-start-date+time")
			}
		}
		if e.VP != nil {
			cnt(e.VP.Pos != nil)
			cnt(e.VP.Ts != nil)
			cnt(e.VP.OccPct != nil)
			if e.VP.OccPct != nil {
				classes = append(classes, "occupancy-pct")
			}
			if e.VP.Vehicle != nil && e.VP.Vehicle.ID == nil {
				classes = append(classes, "vehicle-without-id-field")
			}
		}
	}
	switch c.Zone {
	case "":
		classes = append(classes, "zone-nil")
	case "UTC":
		classes = append(classes, "zone-utc")
	default:
		if len(c.Zone) > 6 && (c.Zone[:6] == "fixed:" || c.Zone[:6] == "named:") {
			classes = append(classes, "zone-fixed")
		} else {
			classes = append(classes, "zone-dst")
		}
	}
	if info.Idless > 0 {
		classes = append(classes, "idless-vehicle")
	}
	if info.Alerts > 0 {
		classes = append(classes, "has-alert")
	}
	if info.RefOnlyTrips > 0 {
		classes = append(classes, "ref-only-trip")
	}
	if info.RefOnlyVehicles > 0 {
		classes = append(classes, "ref-only-vehicle")
	}
	if info.SizeClass > 0 {
		classes = append(classes, "size-class")
	}
	classes = dedupe(classes)
	nontrivial = len(c.Msg.Entities) >= 2 && info.Kinds >= 2 && present >= 1 && absent >= 1
	return
}

func dedupe(s []string) []string {
	seen := map[string]bool{}
	out := s[:0]
	for _, x := range s {
		if !seen[x] {
			seen[x] = true
			out = append(out, x)
		}
	}
	return out
}

func TestC02(t *testing.T) { rapid.Check(t, propC02) }

func propC02(t *rapid.T) {
	zone := rapid.SampledFrom(rgen.Zones).Draw(t, "zone")
	o := rgen.DefaultGenOpts(zone)
	o.NoPartialDescriptors = true
	if tierThorough() {
		o.MaxTrips, o.MaxVehicles, o.MaxAlerts, o.MaxSTU, o.MaxSelectors = 10, 8, 5, 12, 8
	}
	m, info := rgen.GenMsg(t, o)
	c := CaseRT{Zone: zone, Msg: m, Primers: genPrimers(t, zone, m)}
	c.Env = genEnv(t)
	classes, nt := rtClasses(c, info)
	if len(c.Primers) > 0 {
		classes = append(classes, "after-earlier-calls")
	}
	c02Rec.Eval(classes...)
	if nt {
		c02Rec.NontrivialCase(vt.Fingerprint(c), func() any { return c })
	}
	vt.Run(t, c02Rec, c, checkC02)
}

// TestC02Large: messages with thousands to hundreds of thousands of trips and vehicles, of stop time updates (more than 65,536
// arrival / departure times in one message), of selectors in one alert or of alerts - beyond 16-bit counters and any block
// size - against the same reference transcription. Every (kind, size) combination runs in every tier (rapid.checks cases each).
func TestC02Large(t *testing.T) {
	kinds := []string{"trips+vehicles", "stop-time-updates", "selectors", "alerts"}
	sizes := [][]int{{9000, 100000}, {20000, 140000, 300000}, {20000, 70000}, {9000, 70000}}
	for what := range kinds {
		for _, n := range sizes[what] {
			what, n := what, n
			t.Run(fmt.Sprintf("%s-%d", kinds[what], n), func(outer *testing.T) {
				fail := ""
				defer func() {
					if fail != "" {
						outer.Fatalf("%s", fail)
					}
				}()
				rapid.Check(outer, func(t *rapid.T) {
					zone := rapid.SampledFrom(rgen.Zones).Draw(t, "zone")
					o := rgen.DefaultGenOpts(zone)
					o.NoPartialDescriptors, o.NoSizeClasses = true, true
					switch what {
					case 0:
						o.MaxTrips, o.MaxVehicles, o.MinTrips, o.MinVehicles = n, n, n, n
						o.MaxSTU, o.MaxAlerts = 1, 1
					case 1:
						o.MaxTrips, o.MinTrips, o.MaxSTU, o.MinSTU = 3, 2, n/2, n/2
					case 2:
						o.MaxAlerts, o.MinAlerts, o.MaxSelectors, o.MinSelectors = 1, 1, n, n
					default:
						o.MaxAlerts, o.MinAlerts, o.MaxSelectors = n, n, 1
					}
					m, info := rgen.GenMsg(t, o)
					for i := 0; len(m.Entities)%16 != 13; i++ {
						// an entity count that leaves a remainder for every plausible number of chunks or workers
						m.Entities = append(m.Entities, rgen.Entity{ID: fmt.Sprintf("odd%d", i), VP: &rgen.VehiclePos{Vehicle: &rgen.VehDesc{ID: rgen.P(fmt.Sprintf("odd-vehicle-%d", i))}, StopID: rgen.P("S1")}})
					}
					times := 0
					for i := range m.Entities {
						if tu := m.Entities[i].TU; tu != nil {
							for _, s := range tu.STUs {
								if s.Arr != nil && s.Arr.Time != nil {
									times++
								}
								if s.Dep != nil && s.Dep.Time != nil {
									times++
								}
							}
						}
					}
					c := CaseRT{Zone: zone, Msg: m}
					c.Env = genEnv(t)
					c02Rec.Eval(fmt.Sprintf("large:%s>=%d", kinds[what], n))
					if times > 65536 {
						c02Rec.Class("large:stop-time-event-times>65536")
					}
					c02Rec.NontrivialCase(vt.Fingerprint([]any{zone, n, what, len(m.Entities), info.Trips, times}), func() any {
						return map[string]any{"zone": zone, "entities": len(m.Entities), "size": n, "of": kinds[what], "stop_time_event_times": times}
					})
					if msg := vt.Try(c02Rec, c, checkC02); msg != "" && fail == "" {
						fail = msg
					}
				})
			})
		}
	}
}
