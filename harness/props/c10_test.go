package props

import (
	"fmt"
	"testing"

	"pgregory.net/rapid"

	"verifharness/sgen"
	"verifharness/vt"
)

// ---------------------------------------------------------------------------------------------
// C10: blank = absent = GTFS default; fill-in and inheritance rules apply, nothing else.

type CaseC10 struct {
	vt.Env
	Feed     *sgen.Feed // blank cells are already part of the typed feed
	File     string
	Column   string
	Spelling string // "absent" | "blank" | "mixed"
	Inherit  bool
}

var c10Rec = vt.NewRecorder("C10", "TestC10",
	"well-formed feeds (other optional cells randomly blank too) x the full matrix of 18 default-bearing columns x {column absent, present with all cells blank, present with a generated mixture} x inheritance {off,on}; "+
		"the matrix is enumerated completely for every generated base feed. Oracle: reference defaults (FFFFFF/000000, regular pickup/drop-off, no continuous, timepoint exact, recommended transfer, frequency-based, "+
		"unspecified direction/wheelchair/bikes, stop or platform-with-parent), one-sided arrival/departure copies the given one, inheritance from a station parent; absent == all-blank metamorphically. "+
		"Non-trivial = the target column has >=1 blank/absent cell on an accepted row; distinct by fingerprint of (feed, column, spelling, option)")

func init() { registerReplay("C10", "TestC10", checkC10) }

type c10Col struct {
	File, Column string
	Rows         func(f *sgen.Feed) int
	Blank        func(f *sgen.Feed, i int)
	IsBlank      func(f *sgen.Feed, i int) bool
}

var c10Cols = []c10Col{
	{"routes.txt", "route_color", func(f *sgen.Feed) int { return len(f.Routes) }, func(f *sgen.Feed, i int) { f.Routes[i].Color = "" }, func(f *sgen.Feed, i int) bool { return f.Routes[i].Color == "" }},
	{"routes.txt", "route_text_color", func(f *sgen.Feed) int { return len(f.Routes) }, func(f *sgen.Feed, i int) { f.Routes[i].TextColor = "" }, func(f *sgen.Feed, i int) bool { return f.Routes[i].TextColor == "" }},
	{"routes.txt", "continuous_pickup", func(f *sgen.Feed) int { return len(f.Routes) }, func(f *sgen.Feed, i int) { f.Routes[i].CPickup = -1 }, func(f *sgen.Feed, i int) bool { return f.Routes[i].CPickup < 0 }},
	{"routes.txt", "continuous_drop_off", func(f *sgen.Feed) int { return len(f.Routes) }, func(f *sgen.Feed, i int) { f.Routes[i].CDropOff = -1 }, func(f *sgen.Feed, i int) bool { return f.Routes[i].CDropOff < 0 }},
	{"stops.txt", "location_type", func(f *sgen.Feed) int { return len(f.Stops) }, func(f *sgen.Feed, i int) {
		if f.Stops[i].LocType == 0 {
			f.Stops[i].LocType = -1
		}
	}, func(f *sgen.Feed, i int) bool { return f.Stops[i].LocType < 0 }},
	{"stops.txt", "wheelchair_boarding", func(f *sgen.Feed) int { return len(f.Stops) }, func(f *sgen.Feed, i int) { f.Stops[i].Wheelchair = -1 }, func(f *sgen.Feed, i int) bool { return f.Stops[i].Wheelchair < 0 }},
	{"transfers.txt", "transfer_type", func(f *sgen.Feed) int { return len(f.Transfers) }, func(f *sgen.Feed, i int) { f.Transfers[i].Type = -1 }, func(f *sgen.Feed, i int) bool { return f.Transfers[i].Type < 0 }},
	{"trips.txt", "direction_id", func(f *sgen.Feed) int { return len(f.Trips) }, func(f *sgen.Feed, i int) { f.Trips[i].Dir = -1 }, func(f *sgen.Feed, i int) bool { return f.Trips[i].Dir < 0 }},
	{"trips.txt", "wheelchair_accessible", func(f *sgen.Feed) int { return len(f.Trips) }, func(f *sgen.Feed, i int) { f.Trips[i].Wheelchair = -1 }, func(f *sgen.Feed, i int) bool { return f.Trips[i].Wheelchair < 0 }},
	{"trips.txt", "bikes_allowed", func(f *sgen.Feed) int { return len(f.Trips) }, func(f *sgen.Feed, i int) { f.Trips[i].Bikes = -1 }, func(f *sgen.Feed, i int) bool { return f.Trips[i].Bikes < 0 }},
	{"stop_times.txt", "pickup_type", func(f *sgen.Feed) int { return len(f.StopTimes) }, func(f *sgen.Feed, i int) { f.StopTimes[i].Pickup = -1 }, func(f *sgen.Feed, i int) bool { return f.StopTimes[i].Pickup < 0 }},
	{"stop_times.txt", "drop_off_type", func(f *sgen.Feed) int { return len(f.StopTimes) }, func(f *sgen.Feed, i int) { f.StopTimes[i].DropOff = -1 }, func(f *sgen.Feed, i int) bool { return f.StopTimes[i].DropOff < 0 }},
	{"stop_times.txt", "continuous_pickup", func(f *sgen.Feed) int { return len(f.StopTimes) }, func(f *sgen.Feed, i int) { f.StopTimes[i].CPickup = -1 }, func(f *sgen.Feed, i int) bool { return f.StopTimes[i].CPickup < 0 }},
	{"stop_times.txt", "continuous_drop_off", func(f *sgen.Feed) int { return len(f.StopTimes) }, func(f *sgen.Feed, i int) { f.StopTimes[i].CDropOff = -1 }, func(f *sgen.Feed, i int) bool { return f.StopTimes[i].CDropOff < 0 }},
	{"stop_times.txt", "timepoint", func(f *sgen.Feed) int { return len(f.StopTimes) }, func(f *sgen.Feed, i int) { f.StopTimes[i].Timepoint = -1 }, func(f *sgen.Feed, i int) bool { return f.StopTimes[i].Timepoint < 0 }},
	{"stop_times.txt", "arrival_time", func(f *sgen.Feed) int { return len(f.StopTimes) }, func(f *sgen.Feed, i int) {
		if f.StopTimes[i].Dep.Text != "" {
			f.StopTimes[i].Arr = sgen.TimeVal{}
		}
	}, func(f *sgen.Feed, i int) bool { return f.StopTimes[i].Arr.Text == "" }},
	{"stop_times.txt", "departure_time", func(f *sgen.Feed) int { return len(f.StopTimes) }, func(f *sgen.Feed, i int) {
		if f.StopTimes[i].Arr.Text != "" {
			f.StopTimes[i].Dep = sgen.TimeVal{}
		}
	}, func(f *sgen.Feed, i int) bool { return f.StopTimes[i].Dep.Text == "" }},
	{"frequencies.txt", "exact_times", func(f *sgen.Feed) int { return len(f.Frequencies) }, func(f *sgen.Feed, i int) { f.Frequencies[i].Exact = -1 }, func(f *sgen.Feed, i int) bool { return f.Frequencies[i].Exact < 0 }},
}

func c10Find(file, column string) *c10Col {
	for i := range c10Cols {
		if c10Cols[i].File == file && c10Cols[i].Column == column {
			return &c10Cols[i]
		}
	}
	return nil
}

// c10Mask is the identity: with inheritance on, a stop whose parent is NOT a station must stay as it is - the option is
// documented as inheriting "from parent station ... for a child stop/platform, entrance, or exit" and the statement says
// enabling it "changes nothing else" (an earlier version of this check left such stops open and thereby missed a seeded change).
func c10Mask(n sgen.NStatic, inherit bool) sgen.NStatic { return n }

func checkC10(c CaseC10) error {
	col := c10Find(c.File, c.Column)
	if c.Feed == nil || col == nil {
		return vt.Failf("malformed case")
	}
	f := c.Feed
	allBlank := true
	for i := 0; i < col.Rows(f); i++ {
		if !col.IsBlank(f, i) {
			allBlank = false
		}
	}
	if (c.Spelling == "absent" || c.Spelling == "blank") && !allBlank {
		return vt.Failf("malformed case: spelling %q needs every cell of %s blank", c.Spelling, c.Column)
	}
	want := c10Mask(sgen.Expect(f, sgen.Options{InheritWheelchairBoarding: c.Inherit}).SortedServices(), c.Inherit)
	run := func(drop bool) (sgen.NStatic, error) {
		ts := f.Tables()
		if drop {
			ts.Get(c.File).DropColumn(c.Column)
		}
		s, err := parseStatic(ts, sgen.Canonical(), c.Inherit)
		if err != nil {
			return sgen.NStatic{}, vt.Failf("ParseStatic rejected a well-formed archive: %v", err)
		}
		return c10Mask(sgen.Normalize(s).SortedServices(), c.Inherit), nil
	}
	sig := c.File + ":" + c.Column
	if c.Spelling == "mixed" || c.Spelling == "blank" {
		got, err := run(false)
		if err != nil {
			return err
		}
		if d := sgen.Diff(got, want); d != "" {
			return vt.FailSig("blank-cell:"+sig, "%s.%s present with blank cells (inherit=%v): result differs from the GTFS defaults: %s", c.File, c.Column, c.Inherit, d)
		}
	}
	if allBlank {
		gotAbsent, err := run(true)
		if err != nil {
			return err
		}
		if d := sgen.Diff(gotAbsent, want); d != "" {
			return vt.FailSig("absent-column:"+sig, "%s.%s column absent (inherit=%v): result differs from the GTFS defaults: %s", c.File, c.Column, c.Inherit, d)
		}
		gotBlank, err := run(false)
		if err != nil {
			return err
		}
		if d := sgen.Diff(gotBlank, gotAbsent); d != "" {
			return vt.FailSig("blank-vs-absent:"+sig, "%s.%s: blank cells and an absent column give different results: %s", c.File, c.Column, d)
		}
	}
	return nil
}

func cloneFeed(f *sgen.Feed) *sgen.Feed {
	return cloneVia(f)
}

func TestC10(t *testing.T) { rapid.Check(t, func(t *rapid.T) { propC10(t, false) }) }

// TestC10Large runs the whole matrix on base feeds that are always inflated (thousands of stops, hundreds of trips).
func TestC10Large(t *testing.T) { rapid.Check(t, func(t *rapid.T) { propC10(t, true) }) }

func propC10(t *rapid.T, large bool) {
	{
		o := sgen.DefaultGenOpts()
		o.MinTrips, o.MinStopTimes = 1, 1
		if rapid.IntRange(0, 49).Draw(t, "large") < map[bool]int{true: 10, false: 1}[tierThorough()] {
			o = sgen.LargeGenOpts()
		}
		o.ExplicitDefaults = rapid.Bool().Draw(t, "explicitElsewhere")
		base, _ := sgen.GenFeed(t, o)
		if large || rapid.IntRange(0, 39).Draw(t, "inflate") == 17 {
			// size class: thousands of stops (stops.txt beyond 64 KiB), hundreds of trips
			base = sgen.InflateFeed(base, rapid.SampledFrom([]int{1100, 2500, 4200}).Draw(t, "inflateTo"))
			c10Rec.Class("inflated-base-feed")
		}
		maskSeed := rapid.Uint64().Draw(t, "mixMask")
		inheritFirst := rapid.Bool().Draw(t, "inheritFirst")
		for ci := range c10Cols {
			col := &c10Cols[ci]
			for si, spelling := range []string{"absent", "blank", "mixed"} {
				f := cloneFeed(base)
				n := col.Rows(f)
				blanked := 0
				for i := 0; i < n; i++ {
					if spelling != "mixed" || (maskSeed>>(uint(i+ci)%64))&1 == 1 {
						col.Blank(f, i)
					}
					if col.IsBlank(f, i) {
						blanked++
					}
				}
				if spelling != "mixed" && blanked != n {
					// e.g. location_type cannot be blanked on a station row, a one-sided time cannot lose its other side:
					// the all-blank spellings do not exist for this feed
					c10Rec.Exclude(fmt.Sprintf("%s.%s: all-blank spelling impossible for this feed", col.File, col.Column))
					continue
				}
				inherit := inheritFirst != ((ci+si)%2 == 0)
				c := CaseC10{Feed: f, File: col.File, Column: col.Column, Spelling: spelling, Inherit: inherit}
				cls := col.Column + "/" + spelling
				c10Rec.Eval(cls)
				if blanked > 0 {
					c10Rec.NontrivialCase(vt.Fingerprint(c), func() any {
						if n > 60 {
							return map[string]any{"File": c.File, "Column": c.Column, "Spelling": c.Spelling, "Inherit": c.Inherit, "rows": n, "blank_cells": blanked}
						}
						return map[string]any{"File": c.File, "Column": c.Column, "Spelling": c.Spelling, "Inherit": c.Inherit, "rows": n, "blank_cells": blanked, "table": f.Tables().Get(c.File)}
					})
				}
				vt.Run(t, c10Rec, c, checkC10)
			}
		}
	}
}

// TestC10Huge: the wheelchair_boarding column (mixed and all-blank spelling, inheritance on and off) on a feed of 70003 stops -
// more than 65,536, not a multiple of any chunk size - most of them children of stations.
func TestC10Huge(outerT *testing.T) {
	fail := ""
	defer func() {
		if fail != "" {
			outerT.Fatalf("%s", fail)
		}
	}()
	rapid.Check(outerT, func(t *rapid.T) {
		o := sgen.DefaultGenOpts()
		o.MinTrips, o.MinStopTimes = 1, 1
		o.ExplicitDefaults = rapid.Bool().Draw(t, "explicitElsewhere")
		base, _ := sgen.GenFeed(t, o)
		// a station with a value and a platform under it, so that the inflated copies have something to inherit
		base.Stops = append(base.Stops,
			sgen.Stop{ID: "huge-station", Name: "Station", LocType: 1, Wheelchair: rapid.SampledFrom([]int{1, 2}).Draw(t, "stationValue")},
			sgen.Stop{ID: "huge-platform", Name: "Platform", LocType: -1, Parent: "huge-station", Wheelchair: 1})
		f := sgen.InflateFeed(base, 70003)
		col := c10Find("stops.txt", "wheelchair_boarding")
		maskSeed := rapid.Uint64().Draw(t, "mixMask")
		for _, spelling := range []string{"mixed", "blank"} {
			for _, inherit := range []bool{true, false} {
				g := cloneFeed(f)
				for i := range g.Stops {
					if g.Stops[i].LocType == 1 && spelling == "mixed" {
						continue // stations keep their value in the mixed spelling
					}
					if spelling != "mixed" || (maskSeed>>(uint(i)%64))&1 == 1 || i >= 65536 {
						col.Blank(g, i)
					}
				}
				c := CaseC10{Feed: g, File: col.File, Column: col.Column, Spelling: spelling, Inherit: inherit}
				c.Env = genEnv(t)
				c10Rec.Eval(fmt.Sprintf("huge:stops=%d/%s/inherit=%v", len(g.Stops), spelling, inherit))
				c10Rec.NontrivialCase(vt.Fingerprint([]any{len(g.Stops), spelling, inherit, maskSeed}), func() any {
					return map[string]any{"stops": len(g.Stops), "spelling": spelling, "inherit": inherit}
				})
				if msg := vt.Try(c10Rec, c, checkC10); msg != "" && fail == "" {
					fail = msg
				}
			}
		}
	})
}
