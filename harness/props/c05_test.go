package props

import (
	"archive/zip"
	"bytes"
	"fmt"
	"hash/crc32"
	"os"
	"path/filepath"
	"runtime/debug"
	"strings"
	"testing"
	"time"

	"github.com/jamespfennell/gtfs"
	"github.com/jamespfennell/gtfs/extensions/nyctalerts"
	"github.com/jamespfennell/gtfs/extensions/nycttrips"
	"github.com/jamespfennell/gtfs/journal"
	gtfsrt "github.com/jamespfennell/gtfs/proto"
	"google.golang.org/protobuf/proto"
	"pgregory.net/rapid"

	"verifharness/rgen"
	"verifharness/sgen"
	"verifharness/vt"
)

// ---------------------------------------------------------------------------------------------
// C05: no input can crash or hang the library.
//
// Every target goes through one entry function, keeps no state between iterations, and USES the
// result (accessors, hashes, journal, export) so that latent nil pointers and cycles surface.

// c05Ext returns the extension configuration number k (0 = none, 1-4 NYCT trips, 5-28 NYCT alerts).
func c05Ext(k int) *gtfs.ParseRealtimeOptions {
	k = ((k % 29) + 29) % 29
	o := &gtfs.ParseRealtimeOptions{}
	switch {
	case k == 0:
	case k <= 4:
		o.Extension = nycttrips.Extension(nycttrips.ExtensionOpts{FilterStaleUnassignedTrips: (k-1)&1 != 0, PreserveMTrainPlatformsInBushwick: (k-1)&2 != 0})
	default:
		x := k - 5
		pol := []nyctalerts.ElevatorAlertsDeduplicationPolicy{nyctalerts.NoDeduplication, nyctalerts.DeduplicateInStation, nyctalerts.DeduplicateInComplex}[x%3]
		x /= 3
		o.Extension = nyctalerts.Extension(nyctalerts.ExtensionOpts{ElevatorAlertsDeduplicationPolicy: pol, ElevatorAlertsInformUsingStationIDs: x&1 != 0,
			SkipTimetabledNoServiceAlerts: x&2 != 0, AddNyctMetadata: x&4 != 0})
	}
	return o
}

var c05Zones = []string{"", "UTC", "America/New_York", "fixed:+05:45"}

// useRealtime exercises every accessor of a parsed feed. It returns the number of accessor calls.
func useRealtime(r *gtfs.Realtime) int {
	n := 0
	for i := range r.Trips {
		t := &r.Trips[i]
		var h recordingHash
		t.Hash(&h)
		_ = t.GetVehicle()
		n += 2
		for j := range t.StopTimeUpdates {
			_ = t.StopTimeUpdates[j].GetArrival()
			_ = t.StopTimeUpdates[j].GetDeparture()
			n += 2
		}
		if t.Vehicle != nil {
			var h2 recordingHash
			t.Vehicle.Hash(&h2)
			_ = t.Vehicle.GetTrip()
			n += 2
		}
	}
	for i := range r.Vehicles {
		v := &r.Vehicles[i]
		var h recordingHash
		v.Hash(&h)
		_ = v.GetID()
		_ = v.GetTrip()
		n += 3
	}
	var nilTrip *gtfs.Trip
	var nilVeh *gtfs.Vehicle
	var nilSTU *gtfs.StopTimeUpdate
	_, _, _, _, _ = nilTrip.GetVehicle(), nilVeh.GetID(), nilVeh.GetTrip(), nilSTU.GetArrival(), nilSTU.GetDeparture()
	return n + 5
}

// useJournal builds a journal over every prefix of feeds (and of feeds with the last one repeated) and exports it.
func useJournal(feeds []*gtfs.Realtime) int {
	n := 0
	seq := append(append([]*gtfs.Realtime{}, feeds...), feeds...)
	for p := 0; p <= len(seq); p++ {
		src := &sliceSource{feeds: seq[:p]}
		// the widest window: trips without a start date start in year 1
		j := journal.BuildJournal(src, time.Time{}, time.Unix(1<<60, 0))
		if _, err := j.ExportToCsv(); err != nil {
			_ = err // returned errors are fine
		}
		n++
	}
	return n
}

// useStatic walks a static result; a cyclic parent chain is reported instead of calling Root() on it.
func useStatic(s *gtfs.Static) (int, error) {
	n := 0
	roots, err := stopRoots(s) // bounded, memoised walk: a cycle is reported instead of letting Root() spin
	if err != nil {
		return n, err
	}
	step := 1
	if len(s.Stops) > 3000 {
		step = len(s.Stops) / 1500 // Root() walks the whole chain: sample very large hierarchies
	}
	for i := 0; i < len(s.Stops); i += step {
		if s.Stops[i].Root() != roots[i] {
			return n, vt.Failf("Stops[%d].Root() disagrees with the parent walk", i)
		}
		n++
	}
	for i := range s.Trips {
		t := &s.Trips[i]
		_, _ = t.Route.Id, t.Service.Id
		for j := range t.StopTimes {
			_ = t.StopTimes[j].Stop.Id
			n++
		}
		if t.Shape != nil {
			n += len(t.Shape.Points)
		}
	}
	for i := range s.Routes {
		_ = s.Routes[i].Agency.Id
		n++
	}
	for i := range s.Transfers {
		_, _ = s.Transfers[i].From.Id, s.Transfers[i].To.Id
		n++
	}
	for _, w := range s.Warnings {
		_ = w.Kind.Error()
	}
	return n, nil
}

// withWatchdog runs f; if it does not return within the limit the case is reported as a hang.
func withWatchdog(limit time.Duration, f func() error) error {
	done := make(chan error, 1)
	go func() { done <- vt.Safe(f) }()
	select {
	case err := <-done:
		return err
	case <-time.After(limit):
		return vt.FailSig("hang", "the library did not return within %s on a small input", limit)
	}
}

// ---- realtime: raw and mutated bytes

type CaseC05RT struct {
	Feeds [][]byte // each parsed on its own; the parsed ones are then fed to the journal in order
	Ext   int
	Zone  string
}

var c05RTRec = vt.NewRecorder("C05", "TestC05Realtime",
	"byte strings as realtime messages: raw random bytes, and encodings of hostile structured messages (trip ids shorter than 6 characters, stop time updates without stop id, empty train ids, unknown enum numbers, "+
		"multi-payload entities, empty vehicle descriptors, conflicting duplicates, NYCT extension data) with 0-4 byte-level edits; x all 29 extension configurations x zones. The parsed feeds are walked (hashes, getters) and fed, "+
		"as a sequence including repeats, to BuildJournal on every prefix and exported. Oracle: no panic, no hang (30 s watchdog on inputs of a few hundred bytes); returned errors are fine. Non-trivial = the parser returned a result and >=1 accessor ran")

func init() {
	registerReplay("C05", "TestC05Realtime", checkC05RT)
	registerReplay("C05", "TestC05Static", checkC05Static)
	registerReplay("C05", "TestC05StaticTables", checkC05Tables)
}

func c05RunRT(c CaseC05RT) (parsed int, accessors int, err error) {
	err = withWatchdog(30*time.Second, func() error {
		var feeds []*gtfs.Realtime
		for _, b := range c.Feeds {
			opts := c05Ext(c.Ext)
			opts.Timezone = rgen.Loc(c.Zone)
			r, perr := gtfs.ParseRealtime(append([]byte(nil), b...), opts)
			if perr != nil {
				continue
			}
			parsed++
			accessors += useRealtime(r)
			feeds = append(feeds, r)
		}
		if len(feeds) > 0 {
			accessors += useJournal(feeds)
		}
		return nil
	})
	return
}

func checkC05RT(c CaseC05RT) error {
	zoneOK := false
	for _, z := range c05Zones {
		if z == c.Zone {
			zoneOK = true
		}
	}
	if !zoneOK {
		return fmt.Errorf("malformed case: zone")
	}
	_, _, err := c05RunRT(c)
	return err
}

// genHostileMsg draws a message that violates what the asserting generators guarantee.
func genHostileMsg(t *rapid.T) *rgen.Msg {
	zone := ""
	var m *rgen.Msg
	switch rapid.IntRange(0, 3).Draw(t, "base") {
	case 0:
		m, _, _, _ = genNyctMsg(t, zone)
	case 1:
		c, _ := genC17(t)
		m = c.Msg
	case 2:
		m, _ = genAnyMsg(t, zone)
	default:
		m, _ = rgen.GenMsg(t, rgen.DefaultGenOpts(zone))
	}
	k := rapid.IntRange(0, 5).Draw(t, "hostileEdits")
	for i := 0; i < k && len(m.Entities) > 0; i++ {
		e := &m.Entities[rapid.IntRange(0, len(m.Entities)-1).Draw(t, "entity")]
		switch rapid.IntRange(0, 12).Draw(t, "edit") {
		case 0: // short trip id
			if e.TU != nil {
				e.TU.Trip.TripID = rgen.P(rapid.SampledFrom([]string{"", "1", "12345", "abc", "é"}).Draw(t, "shortID"))
			}
		case 1: // stop time update without stop id
			if e.TU != nil {
				e.TU.STUs = append(e.TU.STUs, rgen.STU{Arr: &rgen.Event{Time: rgen.P(int64(5))}})
			}
		case 2: // empty / missing train id on an assigned trip
			if e.TU != nil {
				e.TU.Trip.Nyct = &rgen.NyctTrip{IsAssigned: rgen.P(true), TrainID: rapid.SampledFrom([]*string{nil, rgen.P("")}).Draw(t, "trainID")}
			}
		case 3: // unknown enum numbers
			if e.TU != nil {
				e.TU.Trip.SchedRel = rgen.P(int32(rapid.SampledFrom([]int{4, 99, -1, 1 << 30}).Draw(t, "rel")))
				e.TU.Trip.Direction = rgen.P(uint32(rapid.SampledFrom([]int{2, 7, 1 << 31}).Draw(t, "dir")))
			}
			if e.AL != nil {
				e.AL.Cause, e.AL.Effect = rgen.P(int32(77)), rgen.P(int32(-3))
			}
			if e.VP != nil {
				e.VP.Status, e.VP.Congestion, e.VP.OccStatus = rgen.P(int32(9)), rgen.P(int32(-1)), rgen.P(int32(100))
			}
		case 4: // multi-payload entity
			if e.TU == nil {
				e.TU = &rgen.TripUpdate{Trip: rgen.TripDesc{TripID: rgen.P("multi")}}
			}
			if e.VP == nil {
				e.VP = &rgen.VehiclePos{}
			}
			if e.AL == nil && rapid.Bool().Draw(t, "tripleAlert") {
				e.AL = &rgen.Alert{}
			}
		case 5: // empty vehicle descriptor
			if e.TU != nil {
				e.TU.Vehicle = &rgen.VehDesc{}
			}
			if e.VP != nil {
				e.VP.Vehicle = &rgen.VehDesc{}
			}
		case 6: // malformed start time / date
			if e.TU != nil {
				e.TU.Trip.StartTime = rgen.P(rapid.SampledFrom([]string{"", "7:00:00", "25:61:61", "aa:bb:cc", "12:00:00x"}).Draw(t, "startTime"))
				e.TU.Trip.StartDate = rgen.P(rapid.SampledFrom([]string{"", "20221345", "00000000", "2022-01-01", "99999999"}).Draw(t, "startDate"))
			}
		case 7: // huge timestamps
			if e.TU != nil && len(e.TU.STUs) > 0 {
				e.TU.STUs[0].Arr = &rgen.Event{Time: rgen.P(rapid.SampledFrom([]int64{-1 << 63, 1<<63 - 1, -1}).Draw(t, "hugeTime"))}
			}
			m.Timestamp = rgen.P(rapid.SampledFrom([]uint64{1<<64 - 1, 1 << 63, 0}).Draw(t, "hugeTs"))
		case 8: // elevator-like alert ids
			if e.AL != nil {
				e.ID = rapid.SampledFrom([]string{"#EL", "A#EL", "AAAA#EL#EL", "A27N#EL", "\x00\x00\x00#EL1", "ééé#EL1"}).Draw(t, "elevID")
			}
		case 9: // odd Mercury sort orders
			if e.AL != nil {
				e.AL.Informed = append(e.AL.Informed, rgen.Selector{SortOrder: rgen.P(rapid.SampledFrom([]string{":", "a:99999999999999999999", ":-1", "::", "x:0x10"}).Draw(t, "sortOrder"))})
			}
		case 10: // duplicated entity, or a long list of stop time updates
			if e.TU != nil && rapid.Bool().Draw(t, "manySTUs") {
				for k := rapid.IntRange(3, 12).Draw(t, "extraSTUs"); k > 0; k-- {
					e.TU.STUs = append(e.TU.STUs, rgen.GenSTU(t))
				}
			} else {
				m.Entities = append(m.Entities, *e)
			}
		case 12: // make the trip visible to the journal: assigned, with a start date, with stops
			if e.TU != nil {
				e.TU.Vehicle = &rgen.VehDesc{ID: rgen.P("veh")}
				e.TU.Trip.StartDate = rgen.P("20231114")
				e.TU.STUs = append(e.TU.STUs, rgen.STU{StopID: rgen.P("A"), Arr: &rgen.Event{Time: rgen.P(rapid.SampledFrom([]int64{-5, 0, 1700000000}).Draw(t, "jArr"))}})
			}
		case 11: // NYCT trip id just off the format
			if e.TU != nil {
				e.TU.Trip.TripID = rgen.P(rapid.SampledFrom([]string{"999999_A..N", "12345_A..N", "123456_ABC..N", "123456_A.N", "123456_A..X", "1234567_A..N"}).Draw(t, "nearID"))
				if e.TU.Trip.Nyct == nil {
					e.TU.Trip.Nyct = &rgen.NyctTrip{}
				}
			}
		}
	}
	return m
}

func mutateBytes(t *rapid.T, b []byte) []byte {
	out := append([]byte(nil), b...)
	k := rapid.IntRange(0, 4).Draw(t, "byteEdits")
	for i := 0; i < k && len(out) > 0; i++ {
		pos := rapid.IntRange(0, len(out)-1).Draw(t, "pos")
		switch rapid.IntRange(0, 4).Draw(t, "byteEdit") {
		case 0:
			out[pos] = rapid.Byte().Draw(t, "byte")
		case 1:
			out[pos] ^= 1 << uint(rapid.IntRange(0, 7).Draw(t, "bit"))
		case 2:
			out = append(out[:pos], out[pos+1:]...)
		case 3:
			out = out[:pos]
		case 4:
			ins := rapid.SliceOfN(rapid.Byte(), 1, 4).Draw(t, "insert")
			out = append(out[:pos], append(ins, out[pos:]...)...)
		}
	}
	return out
}

// partialBytes encodes m with some fields that the schema marks "required" left out (entity id, header, version, the trip of a
// trip update, position coordinates, translation text, stop time update inside ...): legal wire bytes that a strict decoder
// rejects and a lenient one lets through to code that may take the field for granted.
func partialBytes(t *rapid.T, m *rgen.Msg) []byte {
	fm := m.Proto()
	drop := func(l string) bool { return rapid.IntRange(0, 2).Draw(t, l) == 0 }
	if drop("header") {
		fm.Header = nil
	} else if drop("version") {
		fm.Header.GtfsRealtimeVersion = nil
	}
	for _, e := range fm.Entity {
		if drop("entityID") {
			e.Id = nil
		}
		if e.TripUpdate != nil && drop("tuTrip") {
			e.TripUpdate.Trip = nil
		}
		if e.Vehicle != nil && e.Vehicle.Position != nil && drop("lat") {
			e.Vehicle.Position.Latitude = nil
		}
		if e.Alert != nil {
			for _, ts := range []*gtfsrt.TranslatedString{e.Alert.HeaderText, e.Alert.DescriptionText, e.Alert.Url} {
				if ts != nil && len(ts.Translation) > 0 && drop("text") {
					ts.Translation[0].Text = nil
				}
			}
		}
	}
	b, err := proto.MarshalOptions{AllowPartial: true, Deterministic: true}.Marshal(fm)
	if err != nil {
		return m.Marshal()
	}
	return b
}

func TestC05Realtime(t *testing.T) {
	rapid.Check(t, func(t *rapid.T) {
		c := CaseC05RT{Ext: rapid.IntRange(0, 28).Draw(t, "ext"), Zone: rapid.SampledFrom(c05Zones).Draw(t, "zone")}
		n := rapid.IntRange(1, 3).Draw(t, "nFeeds")
		if rapid.IntRange(0, 2).Draw(t, "evolving") == 0 {
			// a history: 2-5 snapshots of ONE message whose trip updates evolve (stops dropped at the front, added at the back,
			// replaced, emptied) - what the journal aligns against what it already holds
			m := genHostileMsg(t)
			c.Feeds = append(c.Feeds, m.Marshal())
			for k := rapid.IntRange(1, 4).Draw(t, "nSnapshots"); k > 0; k-- {
				m = cloneVia(m)
				if m.Timestamp != nil {
					*m.Timestamp += uint64(rapid.IntRange(0, 60).Draw(t, "dt"))
				}
				for ei := range m.Entities {
					tu := m.Entities[ei].TU
					if tu == nil {
						continue
					}
					switch rapid.IntRange(0, 5).Draw(t, "evolve") {
					case 0: // unchanged
					case 1, 2: // passed some stops, maybe new ones at the back
						tu.STUs = tu.STUs[min(len(tu.STUs), rapid.IntRange(0, 2).Draw(t, "passed")):]
						for a := rapid.IntRange(0, 2).Draw(t, "appended"); a > 0; a-- {
							tu.STUs = append(tu.STUs, rgen.GenSTU(t))
						}
					case 3:
						tu.STUs = append(tu.STUs, rgen.GenSTU(t))
					case 4:
						tu.STUs = nil
					default: // the trip is not in this snapshot
						m.Entities[ei].TU = nil
						m.Entities[ei].AL = &rgen.Alert{}
					}
				}
				c.Feeds = append(c.Feeds, m.Marshal())
			}
			n = 0
		}
		for i := 0; i < n; i++ {
			if rapid.IntRange(0, 5).Draw(t, "raw") == 0 {
				c.Feeds = append(c.Feeds, rapid.SliceOfN(rapid.Byte(), 0, 60).Draw(t, "rawBytes"))
			} else if rapid.IntRange(0, 3).Draw(t, "partial") == 0 {
				c.Feeds = append(c.Feeds, partialBytes(t, genHostileMsg(t)))
			} else {
				c.Feeds = append(c.Feeds, mutateBytes(t, genHostileMsg(t).Marshal()))
			}
		}
		vt.SaveCurrent(c05RTRec, c)
		parsed, acc, err := c05RunRT(c)
		c05RTRec.Eval(fmt.Sprintf("ext-class=%s", map[bool]string{true: "none", false: map[bool]string{true: "nycttrips", false: "nyctalerts"}[c.Ext <= 4]}[c.Ext == 0]), fmt.Sprintf("parsed=%d", parsed))
		if parsed > 0 && acc > 0 {
			c05RTRec.NontrivialCase(vt.Fingerprint(c), func() any { return map[string]any{"ext": c.Ext, "zone": c.Zone, "feeds_hex": hexes(c.Feeds)} })
		}
		vt.Run(t, c05RTRec, c, func(CaseC05RT) error { return err })
	})
}

func hexes(bs [][]byte) []string {
	var out []string
	for _, b := range bs {
		s := fmt.Sprintf("%x", b)
		if len(s) > 400 {
			s = s[:400] + "…"
		}
		out = append(out, s)
	}
	return out
}

// ---- static: hostile tables, member decoder, raw archives

type CaseC05Static struct {
	// Members of the archive, arbitrary bytes each. An empty list with Raw set means Raw is the archive.
	Members []struct {
		Name string
		Data []byte
	}
	Raw     []byte
	Inherit bool
	// Lie, when non-nil, makes the header of member LieMember declare these sizes / checksum instead of the true ones
	// (written with zip.Writer.CreateRaw, method Store).
	Lie       *ZipLie `json:",omitempty"`
	LieMember int     `json:",omitempty"`
}

type ZipLie struct {
	UncompressedSize uint64
	CompressedSize   uint64
	KeepCompressed   bool // CompressedSize stays truthful
	CRC32            uint32
	KeepCRC          bool
}

var c05StaticRec = vt.NewRecorder("C05", "TestC05Static",
	"zip archives whose members are arbitrary byte strings: a well-formed rendered feed in which 1-3 members are replaced by generated bytes (random, hostile CSV snippets, truncated or byte-mutated CSV), member names from the ten supported names, "+
		"raw/mutated archives, and members whose zip header declares false sizes (0 ... 2^64-1) or checksum. Oracle: no panic, no hang; result walked (Root() after a bounded walk, all references dereferenced). Non-trivial = ParseStatic returned a result and >=1 accessor ran")

var c05TablesRec = vt.NewRecorder("C05", "TestC05StaticTables",
	"syntactically valid CSV with semantically wrong content: well-formed feeds after 1-8 hostile table edits incl. structural ones (dropped/duplicated columns, dropped files, emptied files), rendered under generated presentations. Oracle as above")

var c05Snippets = []string{"", "\n", "a,b\n1\n", "stop_id\n\"unterminated", "stop_id,stop_id\na,b\n", "\xEF\xBB\xBFstop_id\nx\n", "\xFF\xFEs\x00t\x00", "trip_id,stop_id,stop_sequence\nNOPE,NOPE,1\n",
	"shape_id,shape_pt_lat,shape_pt_lon,shape_pt_sequence\ns,x,y,z\n", "stop_id,parent_station\na,a\n", "stop_id,parent_station\na,b\nb,a\n", "service_id,date,exception_type\ns,20220101,1\ns,bad,2\n",
	"trip_id,start_time,end_time,headway_secs\nt,1,2,x\n", "route_id,route_type\n,\n", "agency_name,agency_url,agency_timezone\n,,\n"}

func c05BuildArchive(c CaseC05Static) []byte {
	if len(c.Members) == 0 {
		return c.Raw
	}
	var b bytes.Buffer
	w := zip.NewWriter(&b)
	for i, m := range c.Members {
		if c.Lie != nil && i == c.LieMember%len(c.Members) {
			fh := &zip.FileHeader{Name: m.Name, Method: zip.Store, UncompressedSize64: c.Lie.UncompressedSize, CompressedSize64: c.Lie.CompressedSize, CRC32: c.Lie.CRC32}
			if c.Lie.KeepCompressed {
				fh.CompressedSize64 = uint64(len(m.Data))
			}
			if c.Lie.KeepCRC {
				fh.CRC32 = crc32.ChecksumIEEE(m.Data)
			}
			if fw, err := w.CreateRaw(fh); err == nil {
				fw.Write(m.Data)
			}
			continue
		}
		// Store, not Deflate: the archive layer is not what these targets explore, and it triples the throughput
		fw, err := w.CreateHeader(&zip.FileHeader{Name: m.Name, Method: zip.Store})
		if err != nil {
			continue
		}
		fw.Write(m.Data)
	}
	w.Close()
	return b.Bytes()
}

func c05RunStatic(archive []byte, inherit bool) (ok bool, accessors int, err error) {
	err = withWatchdog(30*time.Second, func() error {
		s, perr := gtfs.ParseStatic(append([]byte(nil), archive...), gtfs.ParseStaticOptions{InheritWheelchairBoarding: inherit})
		if perr != nil {
			return nil
		}
		ok = true
		n, uerr := useStatic(s)
		accessors = n
		return uerr
	})
	return
}

func checkC05Static(c CaseC05Static) error {
	_, _, err := c05RunStatic(c05BuildArchive(c), c.Inherit)
	return err
}

func checkC05Tables(c CaseStaticTables) error {
	_, _, err := c05RunStatic(sgen.Render(c.Tables, c.Pres), c.Inherit)
	if err == nil && c.Follow != nil {
		_, _, err = c05RunStatic(sgen.Render(c.Follow, sgen.Canonical()), c.Inherit)
	}
	return err
}

type CaseStaticTables struct {
	Tables  sgen.Tables
	Pres    sgen.Presentation
	Inherit bool
	Labels  []string `json:",omitempty"`
	// Follow, when set, is parsed right after Tables in the same process: a cut-down feed whose references name ids that only
	// the feed before it carries (whatever a parser keeps from one call must not be looked up by the next).
	Follow sgen.Tables `json:",omitempty"`
}

// followUp builds the cut-down feed: the first row of every file, with every reference column naming the id of the LAST row
// of the referenced file in ts - dangling in the cut-down feed, defined (at a high row index) in the feed before it.
func followUp(ts sgen.Tables) sgen.Tables {
	out := ts.Clone()
	lastID := map[string]string{}
	for i := range ts {
		if idc, ok := sgen.IDCols[ts[i].Name]; ok && ts[i].Col(idc) >= 0 && len(ts[i].Rows) > 1 {
			lastID[ts[i].Name] = ts[i].Rows[len(ts[i].Rows)-1][ts[i].Col(idc)]
		}
	}
	for i := range out {
		if len(out[i].Rows) > 1 {
			out[i].Rows = out[i].Rows[:1]
		}
	}
	for _, rc := range sgen.RefCols {
		tb := out.Get(rc[0])
		if tb == nil || tb.Col(rc[1]) < 0 || len(tb.Rows) == 0 || lastID[rc[2]] == "" {
			continue
		}
		tb.Rows[0][tb.Col(rc[1])] = lastID[rc[2]]
	}
	return out
}

func TestC05Static(t *testing.T) {
	rapid.Check(t, func(t *rapid.T) {
		o := sgen.DefaultGenOpts()
		o.MaxStops, o.MaxTrips, o.MaxStopTimes = 5, 3, 4
		f, _ := sgen.GenFeed(t, o)
		ts := f.Tables()
		c := CaseC05Static{Inherit: rapid.Bool().Draw(t, "inherit")}
		for i := range ts {
			c.Members = append(c.Members, struct {
				Name string
				Data []byte
			}{ts[i].Name, sgen.RenderCSV(&ts[i], sgen.FilePres{})})
		}
		mode := rapid.IntRange(0, 6).Draw(t, "mode")
		switch {
		case mode == 6: // a member whose zip header lies about its sizes or checksum
			sizes := []uint64{0, 1, 1 << 20, 1<<31 - 1, 1 << 31, 1<<32 - 1, 1 << 32, 1 << 40, 1 << 62, 1 << 63, 1<<64 - 1}
			c.Lie = &ZipLie{UncompressedSize: rapid.SampledFrom(sizes).Draw(t, "lieUncompressed"), CompressedSize: rapid.SampledFrom(sizes).Draw(t, "lieCompressed"),
				KeepCompressed: rapid.IntRange(0, 3).Draw(t, "keepCompressed") != 0, CRC32: rapid.Uint32().Draw(t, "lieCRC"), KeepCRC: rapid.Bool().Draw(t, "keepCRC")}
			c.LieMember = rapid.IntRange(0, len(c.Members)-1).Draw(t, "lieMember")
		case mode == 0: // raw archive bytes
			raw := c05BuildArchive(c)
			c.Members = nil
			c.Raw = mutateBytes(t, raw)
			if rapid.IntRange(0, 3).Draw(t, "fullyRandom") == 0 {
				c.Raw = rapid.SliceOfN(rapid.Byte(), 0, 100).Draw(t, "rawArchive")
			}
		default: // replace 1-3 members
			for k := rapid.IntRange(1, 3).Draw(t, "nReplaced"); k > 0; k-- {
				i := rapid.IntRange(0, len(c.Members)-1).Draw(t, "member")
				switch rapid.IntRange(0, 3).Draw(t, "replacement") {
				case 0:
					c.Members[i].Data = rapid.SliceOfN(rapid.Byte(), 0, 80).Draw(t, "memberBytes")
				case 1:
					c.Members[i].Data = []byte(rapid.SampledFrom(c05Snippets).Draw(t, "snippet"))
				case 2:
					c.Members[i].Data = mutateBytes(t, c.Members[i].Data)
				default: // another file's content under this name
					j := rapid.IntRange(0, len(c.Members)-1).Draw(t, "otherMember")
					c.Members[i].Data = c.Members[j].Data
				}
			}
		}
		vt.SaveCurrent(c05StaticRec, c)
		ok, acc, err := c05RunStatic(c05BuildArchive(c), c.Inherit)
		if c.Lie != nil {
			// whatever a parser allocated on the strength of a declared size is returned before the next case, so that a
			// case that ends the process is the one that asked for too much, not the one after several that asked for a lot
			debug.FreeOSMemory()
		}
		c05StaticRec.Eval(map[int]string{0: "mode=raw-archive", 6: "mode=lying-zip-header"}[mode]+map[bool]string{true: "", false: "mode=member-replaced"}[mode == 0 || mode == 6], fmt.Sprintf("accepted=%v", ok))
		if ok && acc > 0 {
			c05StaticRec.NontrivialCase(vt.Fingerprint(c), func() any {
				var names []string
				for _, m := range c.Members {
					names = append(names, fmt.Sprintf("%s(%d bytes)", m.Name, len(m.Data)))
				}
				return map[string]any{"members": names, "raw_bytes": len(c.Raw)}
			})
		}
		vt.Run(t, c05StaticRec, c, func(CaseC05Static) error { return err })
	})
}

func TestC05StaticTables(t *testing.T) {
	rapid.Check(t, func(t *rapid.T) {
		o := sgen.DefaultGenOpts()
		o.ExplicitDefaults = rapid.Bool().Draw(t, "explicit")
		f, _ := sgen.GenFeed(t, o)
		mts, labels := sgen.Mutate(t, f.Tables(), rapid.IntRange(1, 8).Draw(t, "nEdits"), true)
		if rapid.IntRange(0, 39).Draw(t, "sizeClass") == 0 {
			// size classes: thousands of rows overall, or in one group (one trip's stop times, one shape, one service's dates)
			n := rapid.SampledFrom([]int{1030, 2060, 4100, 8200, 16500}).Draw(t, "sizeN")
			if rapid.Bool().Draw(t, "longGroup") {
				mts = sgen.LongGroup(mts, n)
				labels = append(labels, fmt.Sprintf("long-group-%d", n))
			} else {
				mts = sgen.Inflate(mts, n)
				labels = append(labels, fmt.Sprintf("inflated-%d", n))
			}
		}
		p, _ := sgen.GenPresentation(t, mts)
		c := CaseStaticTables{Tables: mts, Pres: p, Inherit: rapid.Bool().Draw(t, "inherit"), Labels: labels}
		if rapid.IntRange(0, 3).Draw(t, "followUp") == 0 {
			c.Follow = followUp(mts)
		}
		vt.SaveCurrent(c05TablesRec, c)
		ok, acc, err := c05RunStatic(sgen.Render(c.Tables, c.Pres), c.Inherit)
		if err == nil && c.Follow != nil {
			_, _, err = c05RunStatic(sgen.Render(c.Follow, sgen.Canonical()), c.Inherit)
		}
		sizeCls := ""
		if len(labels) > 0 && (strings.HasPrefix(labels[len(labels)-1], "long-group-") || strings.HasPrefix(labels[len(labels)-1], "inflated-")) {
			sizeCls = "size-class"
		}
		c05TablesRec.Eval(fmt.Sprintf("accepted=%v", ok), sizeCls)
		if ok && acc > 0 {
			c05TablesRec.NontrivialCase(vt.Fingerprint(c), func() any { return map[string]any{"edits": labels} })
		}
		vt.Run(t, c05TablesRec, c, func(CaseStaticTables) error { return err })
	})
}

// ---------------------------------------------------------------------------------------------
// native fuzz targets (thorough tier). The saved crasher is the reproducible unit.

func fuzzSeedCorpus() bool { return os.Getenv("VERIF_FUZZ_CORPUS") != "empty" }

func FuzzRealtime(f *testing.F) {
	if fuzzSeedCorpus() {
		for i := 0; i < 6; i++ {
			f.Add(c19GoodFeed(i, i), byte(i*5))
		}
		f.Add([]byte("\x0a\x05\x0a\x031.0"), byte(0))
		f.Add([]byte("\x0a\x05\x0a\x031.0\x12\x0c\x0a\x01e\x1a\x07\x0a\x05\x0a\x03abc"), byte(1))
		if files, _ := filepath.Glob(filepath.Join("testdata", "fuzzseed", "rt-*.bin")); len(files) > 0 {
			for _, p := range files {
				if b, err := os.ReadFile(p); err == nil {
					f.Add(b, byte(len(b)))
				}
			}
		}
	} else {
		f.Add([]byte{}, byte(0))
	}
	f.Fuzz(func(t *testing.T, b []byte, cfg byte) {
		c := CaseC05RT{Feeds: [][]byte{b}, Ext: int(cfg) % 29, Zone: c05Zones[int(cfg)/29%len(c05Zones)]}
		if _, _, err := c05RunRT(c); err != nil {
			t.Fatalf("%v", err)
		}
	})
}

var fuzzMemberNames = sgen.FileOrder

func FuzzStaticMember(f *testing.F) {
	base := c05BaseMembers()
	if fuzzSeedCorpus() {
		for i, name := range fuzzMemberNames {
			f.Add(byte(i), base[name])
		}
		for _, s := range c05Snippets {
			f.Add(byte(2), []byte(s))
			f.Add(byte(9), []byte(s))
		}
	} else {
		f.Add(byte(0), []byte{})
	}
	f.Fuzz(func(t *testing.T, which byte, body []byte) {
		name := fuzzMemberNames[int(which)%len(fuzzMemberNames)]
		c := CaseC05Static{Inherit: which >= 128}
		for _, n := range fuzzMemberNames {
			data := base[n]
			if n == name {
				data = body
			}
			c.Members = append(c.Members, struct {
				Name string
				Data []byte
			}{n, data})
		}
		if _, _, err := c05RunStatic(c05BuildArchive(c), c.Inherit); err != nil {
			t.Fatalf("%v", err)
		}
	})
}

func FuzzStaticArchive(f *testing.F) {
	if fuzzSeedCorpus() {
		base := c05BaseMembers()
		c := CaseC05Static{}
		for _, n := range fuzzMemberNames {
			c.Members = append(c.Members, struct {
				Name string
				Data []byte
			}{n, base[n]})
		}
		f.Add(c05BuildArchive(c))
		f.Add([]byte("PK\x05\x06" + string(make([]byte, 18))))
	} else {
		f.Add([]byte{})
	}
	f.Fuzz(func(t *testing.T, archive []byte) {
		if _, _, err := c05RunStatic(archive, false); err != nil {
			t.Fatalf("%v", err)
		}
	})
}

// c05BaseMembers is a small fixed well-formed feed used as the context of a fuzzed member.
func c05BaseMembers() map[string][]byte {
	f := &sgen.Feed{
		Agencies:      []sgen.Agency{{ID: "a", Name: "A", URL: "u", TZ: "America/New_York"}},
		Routes:        []sgen.Route{{ID: "r", AgencyID: "a", Type: 1, CPickup: -1, CDropOff: -1}},
		Stops:         []sgen.Stop{{ID: "st", LocType: 1, Wheelchair: 1}, {ID: "p1", Parent: "st", LocType: -1, Wheelchair: -1}, {ID: "p2", Parent: "st", LocType: 0, Wheelchair: 2}},
		Transfers:     []sgen.Transfer{{From: "p1", To: "p2", Type: 2, MinTime: "60"}},
		Calendar:      []sgen.CalendarRow{{ServiceID: "sv", Days: [7]int{1, 1, 1, 1, 1, 0, 0}, Start: sgen.Date{Y: 2023, M: 1, D: 1}, End: sgen.Date{Y: 2023, M: 12, D: 31}}},
		CalendarDates: []sgen.CalDateRow{{ServiceID: "sv", Date: sgen.Date{Y: 2023, M: 7, D: 4}, ExType: "2"}},
		Shapes:        []sgen.ShapeRow{{ShapeID: "sh", Lat: sgen.FloatVal{V: 1, Text: "1"}, Lon: sgen.FloatVal{V: 2, Text: "2"}, Seq: 1}, {ShapeID: "sh", Lat: sgen.FloatVal{V: 3, Text: "3"}, Lon: sgen.FloatVal{V: 4, Text: "4"}, Seq: 2}},
		Trips:         []sgen.Trip{{RouteID: "r", ServiceID: "sv", ID: "t1", Dir: 0, Wheelchair: -1, Bikes: -1, ShapeID: "sh"}, {RouteID: "r", ServiceID: "sv", ID: "t2", Dir: 1, Wheelchair: 1, Bikes: 2}},
		Frequencies:   []sgen.Frequency{{TripID: "t1", Start: sgen.TimeVal{Sec: 3600, Text: "01:00:00"}, End: sgen.TimeVal{Sec: 7200, Text: "02:00:00"}, Headway: 600, Exact: -1}},
		StopTimes: []sgen.StopTime{
			{TripID: "t1", StopID: "p1", Arr: sgen.TimeVal{Sec: 3600, Text: "01:00:00"}, Dep: sgen.TimeVal{Sec: 3660, Text: "01:01:00"}, Seq: 1, Pickup: -1, DropOff: -1, CPickup: -1, CDropOff: -1, Timepoint: -1},
			{TripID: "t2", StopID: "p2", Arr: sgen.TimeVal{Sec: 90000, Text: "25:00:00"}, Dep: sgen.TimeVal{Sec: 90000, Text: "25:00:00"}, Seq: 1, Pickup: 0, DropOff: 1, CPickup: 2, CDropOff: 3, Timepoint: 0},
			{TripID: "t1", StopID: "p2", Arr: sgen.TimeVal{Sec: 4000, Text: "1:06:40"}, Dep: sgen.TimeVal{}, Seq: 2, Pickup: -1, DropOff: -1, CPickup: -1, CDropOff: -1, Timepoint: 1},
		},
	}
	out := map[string][]byte{}
	ts := f.Tables()
	for i := range ts {
		out[ts[i].Name] = sgen.RenderCSV(&ts[i], sgen.FilePres{})
	}
	return out
}

// TestC05Large: archives far beyond ordinary sizes - 100000 rows per file, one group of 70000 rows, parent chains and parent
// CYCLES through 70001 stops, one cell of 1 MiB, a member of 8 MiB - and realtime messages of 100000 hostile entities. The
// result is walked as in the other C05 tests. Every kind runs in every tier.
func TestC05Large(t *testing.T) {
	for _, kind := range []string{"inflated-100000", "long-group-70000", "parent-cycle-70001", "parent-chain-70001", "cell-1MiB", "member-8MiB", "realtime-100000"} {
		kind := kind
		t.Run(kind, func(outer *testing.T) {
			fail := ""
			defer func() {
				if fail != "" {
					outer.Fatalf("%s", fail)
				}
			}()
			rapid.Check(outer, func(t *rapid.T) {
				var ok bool
				var acc int
				var err error
				var saved any
				if kind == "realtime-100000" {
					m := genHostileMsg(t)
					base := len(m.Entities)
					for i := 0; base > 0 && len(m.Entities) < 100000; i++ {
						e := m.Entities[i%base]
						e.ID = fmt.Sprintf("%s~%d", e.ID, i)
						m.Entities = append(m.Entities, e)
					}
					c := CaseC05RT{Ext: rapid.IntRange(0, 28).Draw(t, "ext"), Zone: rapid.SampledFrom(c05Zones).Draw(t, "zone"), Feeds: [][]byte{m.Marshal()}}
					var parsed int
					parsed, acc, err = c05RunRT(c)
					ok, saved = parsed > 0, c
				} else {
					o := sgen.DefaultGenOpts()
					o.MinTrips, o.MinStopTimes = 1, 1
					f, _ := sgen.GenFeed(t, o)
					ts, labels := sgen.Mutate(t, f.Tables(), rapid.IntRange(0, 4).Draw(t, "nEdits"), false)
					st := ts.Get("stops.txt")
					switch kind {
					case "inflated-100000":
						ts = sgen.Inflate(ts, 100003)
					case "long-group-70000":
						ts = sgen.LongGroup(ts, 70003)
					case "parent-cycle-70001", "parent-chain-70001":
						if ic, pc := st.Col("stop_id"), st.Col("parent_station"); ic >= 0 && pc >= 0 && len(st.Rows) > 0 {
							tmpl := st.Rows[0]
							for i := 0; i < 70001; i++ {
								row := append([]string(nil), tmpl...)
								row[ic], row[pc] = fmt.Sprintf("ring%d", i), fmt.Sprintf("ring%d", (i+1)%70001)
								if kind == "parent-chain-70001" && i == 70000 {
									row[pc] = ""
								}
								st.Rows = append(st.Rows, row)
							}
						}
					case "cell-1MiB":
						if nc := st.Col("stop_name"); nc >= 0 && len(st.Rows) > 0 {
							st.Rows[len(st.Rows)/2][nc] = strings.Repeat("long stop name ", 70000)
						}
					case "member-8MiB":
						if dc := st.Col("stop_desc"); dc >= 0 && len(st.Rows) > 0 {
							tmpl := st.Rows[0]
							for i := 0; i < 8000; i++ {
								row := append([]string(nil), tmpl...)
								row[st.Col("stop_id")] = fmt.Sprintf("big%d", i)
								row[dc] = strings.Repeat("d", 1000)
								st.Rows = append(st.Rows, row)
							}
						}
					}
					c := CaseStaticTables{Tables: ts, Pres: sgen.Canonical(), Inherit: rapid.Bool().Draw(t, "inherit"), Labels: append(labels, kind)}
					ok, acc, err = c05RunStatic(sgen.Render(c.Tables, c.Pres), c.Inherit)
					saved = c
				}
				c05TablesRec.Eval("large:"+kind, fmt.Sprintf("accepted=%v", ok))
				if ok && acc > 0 {
					c05TablesRec.NontrivialCase(vt.Fingerprint([]any{kind, acc}), func() any { return map[string]any{"kind": kind, "accessor_calls": acc} })
				}
				var msg string
				switch c := saved.(type) {
				case CaseC05RT:
					msg = vt.Try(c05RTRec, c, func(CaseC05RT) error { return err })
				case CaseStaticTables:
					msg = vt.Try(c05TablesRec, c, func(CaseStaticTables) error { return err })
				}
				if msg != "" && fail == "" {
					fail = msg
				}
			})
		})
	}
}
