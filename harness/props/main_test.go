package props

import (
	"encoding/json"
	"fmt"
	"io"
	"log"
	"os"
	"path/filepath"
	"sort"
	"testing"

	"verifharness/vt"
)

func TestMain(m *testing.M) {
	// The library logs skipped rows with log.Printf / fmt.Println; keep test output readable.
	log.SetOutput(io.Discard)
	code := m.Run()
	vt.Flush()
	os.Exit(code)
}

// replayers maps "<property>/<test>" to a function that runs the plain check on a saved case.
var replayers = map[string]func(json.RawMessage) error{}

func registerReplay[C any](property, test string, check func(C) error) {
	replayers[property+"/"+test] = func(raw json.RawMessage) error {
		var c C
		if err := json.Unmarshal(raw, &c); err != nil {
			return fmt.Errorf("replay file does not decode: %w", err)
		}
		vt.ApplyEnvOf(c)
		defer vt.Env{}.Apply()
		return vt.Safe(func() error { return check(c) })
	}
}

func replayFile(path string) error {
	env, err := vt.LoadEnvelope(path)
	if err != nil {
		return fmt.Errorf("cannot load %s: %w", path, err)
	}
	f, ok := replayers[env.Property+"/"+env.Test]
	if !ok {
		return fmt.Errorf("no replayer for %s/%s", env.Property, env.Test)
	}
	return f(env.Case)
}

// TestReplay runs the committed regression cases of $VERIF_PROP (plain checks, no rapid), or the
// single file $VERIF_REPLAY_FILE.
func TestReplay(t *testing.T) {
	if p := os.Getenv("VERIF_REPLAY_FILE"); p != "" {
		if err := replayFile(p); err != nil {
			t.Fatalf("VERIF-FAIL property=%s test=replay replay=%s\n%v", os.Getenv("VERIF_PROP"), p, err)
		}
		return
	}
	prop := os.Getenv("VERIF_PROP")
	if prop == "" {
		t.Skip("VERIF_PROP not set")
	}
	files, _ := filepath.Glob(filepath.Join("testdata", "replay", prop, "*.json"))
	sort.Strings(files)
	rec := vt.NewRecorder(prop, "TestReplay", "committed regression cases (shrunk earlier failures and hand-picked corner cases) re-run through the plain check, bypassing the generator")
	for _, f := range files {
		rec.Eval("replay")
		if err := replayFile(f); err != nil {
			if v, ok := err.(*vt.Violation); ok && vt.IsKnown(prop, v.Sig) {
				continue
			}
			abs, _ := filepath.Abs(f)
			t.Fatalf("VERIF-FAIL property=%s test=replay replay=%s\n%v", prop, abs, err)
		}
	}
}
