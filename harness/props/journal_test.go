package props

import (
	"fmt"
	"sort"
	"testing"
	"time"

	"github.com/jamespfennell/gtfs"
	"github.com/jamespfennell/gtfs/journal"
	"pgregory.net/rapid"

	"verifharness/vt"
)

// ---------------------------------------------------------------------------------------------
// Journal histories (C14, C15)

type JStop struct {
	StopID   string
	Arr, Dep *int64
	Track    *string
	SchedRel int32 `json:",omitempty"` // stop time update schedule relationship (0 SCHEDULED, 1 SKIPPED, 2 NO_DATA, 3 UNSCHEDULED)
}

type JUpdate struct {
	Trip       int // index into Pool
	HasVehicle bool
	VehicleID  string
	Stops      []JStop
}

type JFeed struct {
	CreatedAt int64
	Updates   []JUpdate
}

type JTripDesc struct {
	ID           string // NYCT-shaped: six digits, then a suffix starting with '_'
	RouteID      string
	Dir          int
	StartDate    int64 // unix seconds of the service day's local midnight
	StartTimeSec int64
	Zone         string `json:",omitempty"` // presentation zone of the start date ("" = UTC); the start instant is StartDate + StartTime elapsed
}

type History struct {
	vt.Env
	Pool                   []JTripDesc
	Feeds                  []JFeed
	WindowStart, WindowEnd int64
}

func (d JTripDesc) startInstant() int64 { return d.StartDate + d.StartTimeSec }
func (d JTripDesc) uid() string         { return fmt.Sprintf("%d%s", d.startInstant(), d.ID[6:]) }

func jTime(u int64) time.Time { return time.Unix(u, 0).UTC() }

// buildRealtime renders one feed as the *gtfs.Realtime the parser would hand to the journal.
func (h *History) buildRealtime(f *JFeed) *gtfs.Realtime {
	r := &gtfs.Realtime{CreatedAt: jTime(f.CreatedAt)}
	for _, u := range f.Updates {
		d := h.Pool[u.Trip]
		startDate := jTime(d.StartDate)
		if d.Zone != "" {
			startDate = startDate.In(c20Loc(d.Zone))
		}
		t := gtfs.Trip{ID: gtfs.TripID{ID: d.ID, RouteID: d.RouteID, DirectionID: gtfs.DirectionID(d.Dir), HasStartDate: true, StartDate: startDate,
			HasStartTime: true, StartTime: time.Duration(d.StartTimeSec) * time.Second}, IsEntityInMessage: true}
		for _, s := range u.Stops {
			id := s.StopID
			stu := gtfs.StopTimeUpdate{StopID: &id, ScheduleRelationship: gtfs.StopTimeUpdateScheduleRelationship(s.SchedRel)}
			if s.Arr != nil {
				tm := jTime(*s.Arr)
				stu.Arrival = &gtfs.StopTimeEvent{Time: &tm}
			}
			if s.Dep != nil {
				tm := jTime(*s.Dep)
				stu.Departure = &gtfs.StopTimeEvent{Time: &tm}
			}
			if s.Track != nil {
				tr := *s.Track
				stu.NyctTrack = &tr
			}
			t.StopTimeUpdates = append(t.StopTimeUpdates, stu)
		}
		if u.HasVehicle {
			t.Vehicle = &gtfs.Vehicle{ID: &gtfs.VehicleID{ID: u.VehicleID}}
		}
		r.Trips = append(r.Trips, t)
	}
	return r
}

type sliceSource struct {
	feeds []*gtfs.Realtime
	i     int
}

func (s *sliceSource) Next() *gtfs.Realtime {
	if s.i >= len(s.feeds) {
		return nil
	}
	s.i++
	return s.feeds[s.i-1]
}

func (h *History) run(prefix int) *journal.Journal {
	src := &sliceSource{}
	for i := 0; i < prefix; i++ {
		src.feeds = append(src.feeds, h.buildRealtime(&h.Feeds[i]))
	}
	return journal.BuildJournal(src, jTime(h.WindowStart), jTime(h.WindowEnd))
}

// ---- normal form of journal output

type NJStop struct {
	StopID       string
	Arr, Dep     *int64
	Track        *string
	LastObserved int64
	MarkedPast   *int64
}

type NJTrip struct {
	UID, TripID, RouteID string
	Dir                  int
	Start                int64
	VehicleID            string
	IsAssigned           bool
	LastObserved         int64
	MarkedPast           *int64
	NumUpdates           int
	Stops                []NJStop
}

func unixp(t *time.Time) *int64 {
	if t == nil {
		return nil
	}
	u := t.Unix()
	return &u
}

func normJournal(j *journal.Journal) []NJTrip {
	var out []NJTrip
	for _, t := range j.Trips {
		n := NJTrip{UID: t.TripUID, TripID: t.TripID, RouteID: t.RouteID, Dir: int(t.DirectionID), Start: t.StartTime.Unix(), VehicleID: t.VehicleID, IsAssigned: t.IsAssigned,
			LastObserved: t.LastObserved.Unix(), MarkedPast: unixp(t.MarkedPast), NumUpdates: t.NumUpdates}
		for _, s := range t.StopTimes {
			ns := NJStop{StopID: s.StopID, Arr: unixp(s.ArrivalTime), Dep: unixp(s.DepartureTime), LastObserved: s.LastObserved.Unix(), MarkedPast: unixp(s.MarkedPast)}
			if s.Track != nil {
				tr := *s.Track
				ns.Track = &tr
			}
			n.Stops = append(n.Stops, ns)
		}
		out = append(out, n)
	}
	return out
}

// ---- generator

var jStopPool = []string{"A", "B", "C", "D", "E", "F", "G", "H"}

func genJStop(t *rapid.T, id string, base int64) JStop {
	s := JStop{StopID: id}
	if rapid.IntRange(0, 4).Draw(t, "arr?") != 0 {
		v := base + int64(rapid.IntRange(0, 600).Draw(t, "arr"))
		s.Arr = &v
	}
	if rapid.IntRange(0, 4).Draw(t, "dep?") != 0 {
		v := base + int64(rapid.IntRange(0, 600).Draw(t, "dep"))
		s.Dep = &v
	}
	if rapid.IntRange(0, 3).Draw(t, "rel?") == 0 {
		s.SchedRel = int32(rapid.IntRange(1, 3).Draw(t, "rel"))
		if s.SchedRel == 2 && rapid.Bool().Draw(t, "noDataNoTimes") {
			s.Arr, s.Dep = nil, nil // NO_DATA updates carry no times
		}
	}
	if rapid.IntRange(0, 2).Draw(t, "track?") == 0 {
		tr := rapid.SampledFrom([]string{"1", "2", "A3", ""}).Draw(t, "track")
		s.Track = &tr
	}
	return s
}

type jGenOpts struct {
	MaxTrips, MaxFeeds int
	AlwaysAssigned     bool // every update carries a vehicle (C14)
	InsideWindow       bool // window contains every trip
	Collisions         bool // distinct trips sharing (start instant, suffix)
	ForceHuge          int  // > 0: the history has exactly this many trips (few feeds, short stop lists)
}

// genHistory draws a history; ops reports which stop-list operations occurred per trip.
func genHistory(t *rapid.T, o jGenOpts) (*History, map[string]int) {
	h := &History{}
	ops := map[string]int{}
	day := int64(1_700_006_400) // 2023-11-15T00:00:00Z
	maxStops := 5
	huge := 0
	if o.ForceHuge > 0 {
		huge = o.ForceHuge
		o.MaxTrips, o.MaxFeeds, maxStops = huge, min(o.MaxFeeds, 4), 1
		ops["huge-history"]++
	} else if rapid.IntRange(0, 19).Draw(t, "sizeClass") == 0 {
		n := rapid.SampledFrom([]int{17, 33, 70, 130, 260}).Draw(t, "sizeN")
		switch rapid.IntRange(0, 3).Draw(t, "sizeWhat") {
		case 3:
			// thousands of trips in the history (beyond any fixed table or pruning threshold), few feeds, short stop lists
			huge = rapid.SampledFrom([]int{1030, 2100, 4100, 4200, 8300}).Draw(t, "hugeN")
			o.MaxTrips, o.MaxFeeds, maxStops = huge, min(o.MaxFeeds, 5), 1
			ops["huge-history"]++
		case 0:
			o.MaxTrips = n
		case 1:
			o.MaxFeeds = n
		default:
			maxStops = n
		}
		ops["size-class"]++
	}
	nT := rapid.IntRange(1, o.MaxTrips).Draw(t, "nTrips")
	if huge > 0 {
		nT = huge
	}
	suffixes := []string{"_A..N", "_A..S", "_1..N03R", "_", "_GS.N01R"}
	for i := 0; i < nT; i++ {
		d := JTripDesc{RouteID: rapid.SampledFrom([]string{"A", "1", "GS", ""}).Draw(t, "route"), Dir: rapid.IntRange(0, 2).Draw(t, "dir"),
			StartDate: day + 86400*int64(rapid.IntRange(0, 1).Draw(t, "day")), StartTimeSec: int64(rapid.SampledFrom([]int{0, 3600, 3601, 86399, 90000}).Draw(t, "startTime"))}
		if rapid.IntRange(0, 3).Draw(t, "dstDay") == 0 {
			// service days on which New York changes its offset, start times after the 02:00 change:
			// midnight + elapsed start time differs from the wall-clock reading by an hour
			d.Zone = "America/New_York"
			d.StartDate = rapid.SampledFrom([]int64{1710046800, 1730606400, 1710133200}).Draw(t, "dstMidnight") // 2024-03-10, 2024-11-03, 2024-03-11 00:00 local
			d.StartTimeSec = int64(rapid.SampledFrom([]int{3600, 7200, 10800, 14400, 86399}).Draw(t, "dstStartTime"))
		}
		if d.Zone == "" && rapid.IntRange(0, 7).Draw(t, "oddEpoch") == 0 {
			// service days whose Unix time has another number of digits, or is negative: the order of the UIDs (strings) is
			// then not the order of the start instants (2001-09-09 is where 9 digits become 10)
			d.StartDate = rapid.SampledFrom([]int64{0, 86400, 8640000, 999_993_600, 1_000_080_000, -86400, -864000, 9_999_936_000, 10_000_022_400}).Draw(t, "oddEpochDay")
		}
		suffix := rapid.SampledFrom(suffixes).Draw(t, "suffix")
		d.ID = fmt.Sprintf("%06d%s", rapid.SampledFrom([]int{0, 6000, 6001, 143950}).Draw(t, "origin"), suffix)
		if !o.Collisions || huge > 0 {
			d.ID = fmt.Sprintf("%06d%s%d", (1000*i)%600000, suffix, i) // distinct suffix per trip
		} else if i > 0 && rapid.IntRange(0, 2).Draw(t, "collide") == 0 {
			// same start instant and suffix as an earlier trip, but a different identifier: the UIDs collide
			e := h.Pool[rapid.IntRange(0, len(h.Pool)-1).Draw(t, "collideWith")]
			d.StartDate, d.StartTimeSec = e.StartDate, e.StartTimeSec
			d.ID = fmt.Sprintf("%06d%s", rapid.SampledFrom([]int{1, 6002, 99999}).Draw(t, "origin2"), e.ID[6:])
		}
		if huge == 0 && i > 0 && rapid.IntRange(0, 9).Draw(t, "paddedTwin") == 0 {
			// the id of an earlier trip with white space appended is another id (and another UID) at the same start instant
			e := h.Pool[rapid.IntRange(0, len(h.Pool)-1).Draw(t, "twinOf")]
			d = e
			d.ID = e.ID + rapid.SampledFrom([]string{" ", "\t", "\u00a0", "  "}).Draw(t, "padding")
		}
		// the pool holds distinct trip identifiers
		dup := false
		for _, e := range h.Pool {
			if huge > 0 {
				break
			}
			if e == d {
				dup = true
			}
		}
		if !dup {
			h.Pool = append(h.Pool, d)
		}
	}
	nT = len(h.Pool)
	nF := rapid.IntRange(1, o.MaxFeeds).Draw(t, "nFeeds")
	if o.ForceHuge > 0 {
		nF = rapid.IntRange(3, 4).Draw(t, "nFeedsHuge") // vanish and reappear need three feeds
	}
	tcur := int64(1_700_010_000)
	last := make([][]JStop, nT)      // last reported stop list per trip
	seenBefore := make([]bool, nT)   // reported in an earlier feed
	presentPrev := make([]bool, nT)  // reported in the previous feed
	everAssigned := make([]bool, nT) // seen with a vehicle
	for fi := 0; fi < nF; fi++ {
		// feeds may carry the same timestamp (two snapshots within one second): dt = 0 is part of the domain
		tcur += int64(rapid.SampledFrom([]int{0, 1, 1, 5, 30, 120}).Draw(t, "dt"))
		f := JFeed{CreatedAt: tcur}
		if huge == 0 && rapid.IntRange(0, 11).Draw(t, "noHeaderTimestamp") == 0 {
			// a feed without a header timestamp: its time is the zero time.Time (Unix -62135596800), which is a time like any
			// other for "last observed" and "marked past"
			f.CreatedAt = -62135596800
			ops["feed-without-timestamp"]++
		}
		order := seqInts(nT)
		if nT > 1 {
			order = rapid.Permutation(order).Draw(t, "tripOrder")
		}
		presentNow := make([]bool, nT)
		for _, ti := range order {
			if rapid.IntRange(0, 3).Draw(t, "present") == 0 {
				if presentPrev[ti] {
					ops["vanish"]++
				}
				continue
			}
			presentNow[ti] = true
			if seenBefore[ti] && !presentPrev[ti] {
				ops["reappear"]++
			}
			u := JUpdate{Trip: ti}
			if o.AlwaysAssigned || rapid.IntRange(0, 2).Draw(t, "vehicle?") != 0 {
				u.HasVehicle = true
				u.VehicleID = rapid.SampledFrom([]string{"0A 1234 ABC/DEF", "1B", ""}).Draw(t, "vehicleID")
			}
			if u.HasVehicle && !everAssigned[ti] && seenBefore[ti] {
				ops["unassigned-then-assigned"]++
			}
			if !u.HasVehicle && everAssigned[ti] {
				ops["assigned-then-unassigned-update"]++
			}
			everAssigned[ti] = everAssigned[ti] || u.HasVehicle
			// evolve the stop list
			prev := last[ti]
			var ids []string
			for _, s := range prev {
				ids = append(ids, s.StopID)
			}
			switch op := rapid.IntRange(0, 9).Draw(t, "stopOp"); {
			case len(ids) == 0 || op == 0: // fresh list
				n := rapid.IntRange(0, maxStops).Draw(t, "nStops")
				ids = nil
				for i := 0; i < n; i++ {
					ids = append(ids, jStopPool[rapid.IntRange(0, len(jStopPool)-1).Draw(t, "stop")])
				}
				if len(prev) > 0 {
					ops["rewrite"]++
				}
			case op <= 3: // the vehicle passed k stops
				k := rapid.IntRange(0, len(ids)).Draw(t, "passed")
				ids = ids[k:]
				if k > 0 {
					ops["front-shrink"]++
				}
			case op == 4: // growth at the back
				ids = append(append([]string{}, ids...), jStopPool[rapid.IntRange(0, len(jStopPool)-1).Draw(t, "newStop")])
				ops["growth"]++
			case op == 5: // reroute from position p
				p := rapid.IntRange(0, len(ids)).Draw(t, "rerouteAt")
				ids = append([]string{}, ids[:p]...)
				for i := rapid.IntRange(1, 3).Draw(t, "rerouteLen"); i > 0; i-- {
					ids = append(ids, jStopPool[rapid.IntRange(0, len(jStopPool)-1).Draw(t, "rerouteStop")])
				}
				ops["reroute"]++
			case op == 6: // empty
				ids = nil
				ops["empty"]++
			case op == 7: // shrink and grow
				k := rapid.IntRange(0, len(ids)).Draw(t, "passed2")
				ids = append(append([]string{}, ids[k:]...), jStopPool[rapid.IntRange(0, len(jStopPool)-1).Draw(t, "newStop2")])
				ops["front-shrink"]++
				ops["growth"]++
			default: // unchanged
			}
			for _, id := range ids {
				u.Stops = append(u.Stops, genJStop(t, id, tcur))
			}
			last[ti] = u.Stops
			f.Updates = append(f.Updates, u)
		}
		for ti := range presentNow {
			presentPrev[ti] = presentNow[ti]
			seenBefore[ti] = seenBefore[ti] || presentNow[ti]
		}
		h.Feeds = append(h.Feeds, f)
	}
	// window
	if o.InsideWindow {
		h.WindowStart, h.WindowEnd = -(1 << 40), 1<<40
	} else {
		d := h.Pool[rapid.IntRange(0, nT-1).Draw(t, "windowTrip")]
		edge := d.startInstant()
		h.WindowStart = edge + int64(rapid.SampledFrom([]int{-100000, -1, 0, 1}).Draw(t, "windowStart"))
		h.WindowEnd = edge + int64(rapid.SampledFrom([]int{-1, 0, 1, 3600, 100000}).Draw(t, "windowEnd"))
		ops["boundary-window"]++
	}
	return h, ops
}

// ---------------------------------------------------------------------------------------------
// C15: one correctly accounted entry per assigned trip in the window.

var c15Rec = vt.NewRecorder("C15", "TestC15",
	"histories of 1-10 feeds over 1-6 trips (NYCT-shaped ids) that appear, vanish and reappear, gain or lack vehicles, deliberately share (start instant, id suffix) so UIDs collide, listed in generated order per feed, "+
		"x windows whose bounds sit on, just inside and just outside trip start instants. Oracle: reference journal model (map UID -> record, updates applied in feed order with the ignore-unassigned-once-assigned rule, "+
		"marked past at the first feed missing the trip) - output must be the model's assigned in-window trips sorted by UID without duplicates with identical id fields, vehicle id, NumUpdates, LastObserved, MarkedPast, and every stop of a past trip marked past. "+
		"Non-trivial = >=2 trips and a vanish-then-reappear, an unassigned->assigned transition, an unassigned update after assignment, or a boundary window")

func init() { registerReplay("C15", "TestC15", checkC15) }

type jModelTrip struct {
	NJTrip
	active bool
}

func jReference(h *History, prefix int) []NJTrip {
	trips := map[string]*jModelTrip{}
	active := map[string]bool{}
	for fi := 0; fi < prefix; fi++ {
		f := &h.Feeds[fi]
		now := map[string]bool{}
		for _, u := range f.Updates {
			d := h.Pool[u.Trip]
			uid := d.uid()
			m, ok := trips[uid]
			if !ok {
				m = &jModelTrip{}
				trips[uid] = m
			}
			now[uid] = true
			if m.IsAssigned && !u.HasVehicle {
				continue
			}
			m.UID, m.TripID, m.RouteID, m.Dir, m.Start = uid, d.ID, d.RouteID, d.Dir, d.startInstant()
			m.VehicleID = ""
			if u.HasVehicle {
				m.VehicleID = u.VehicleID
			}
			m.IsAssigned = m.IsAssigned || u.HasVehicle
			m.LastObserved = f.CreatedAt
			m.MarkedPast = nil
			m.NumUpdates++
		}
		for uid := range active {
			if !now[uid] && trips[uid].MarkedPast == nil {
				t := f.CreatedAt
				trips[uid].MarkedPast = &t
			}
		}
		active = now
	}
	var out []NJTrip
	for _, m := range trips {
		if m.NumUpdates == 0 { // created by an update that was... cannot happen: the first update is always applied
			continue
		}
		if m.Start < h.WindowStart || m.Start > h.WindowEnd || !m.IsAssigned {
			continue
		}
		out = append(out, m.NJTrip)
	}
	sort.Slice(out, func(i, j int) bool { return out[i].UID < out[j].UID })
	return out
}

func checkC15(h History) error {
	if len(h.Pool) == 0 {
		return vt.Failf("malformed case")
	}
	for _, f := range h.Feeds {
		for _, u := range f.Updates {
			if u.Trip < 0 || u.Trip >= len(h.Pool) || len(h.Pool[u.Trip].ID) < 7 {
				return vt.Failf("malformed case")
			}
		}
	}
	for prefix := 0; prefix <= len(h.Feeds); prefix++ {
		got := normJournal(h.run(prefix))
		want := jReference(&h, prefix)
		if len(got) != len(want) {
			return vt.Failf("after %d feeds: journal has %d trips, reference has %d\n got  %s\n want %s", prefix, len(got), len(want), jsonStr(stripStops(got)), jsonStr(want))
		}
		for i := range want {
			g := got[i]
			stops := g.Stops
			g.Stops = nil
			if jsonStr(g) != jsonStr(want[i]) {
				return vt.Failf("after %d feeds: journal trip %d differs\n got  %s\n want %s", prefix, i, jsonStr(g), jsonStr(want[i]))
			}
			if i > 0 && got[i-1].UID >= g.UID {
				return vt.Failf("after %d feeds: journal not strictly sorted by UID: %q then %q", prefix, got[i-1].UID, g.UID)
			}
			if g.MarkedPast != nil {
				for si, s := range stops {
					if s.MarkedPast == nil {
						return vt.Failf("after %d feeds: trip %q is marked past but its stop time %d (%q) is not", prefix, g.UID, si, s.StopID)
					}
				}
			}
		}
	}
	return nil
}

func stripStops(ts []NJTrip) []NJTrip {
	out := append([]NJTrip(nil), ts...)
	for i := range out {
		out[i].Stops = nil
	}
	return out
}

func jsonStr(v any) string {
	b, _ := jsonMarshal(v)
	return string(b)
}

func TestC15(t *testing.T) { rapid.Check(t, propC15) }

func propC15(t *rapid.T) {
	o := jGenOpts{MaxTrips: 6, MaxFeeds: 10, Collisions: rapid.Bool().Draw(t, "collisions")}
	if tierThorough() {
		o.MaxFeeds = 20
	}
	if rapid.IntRange(0, 3).Draw(t, "wideWindow") == 0 {
		o.InsideWindow = true
	}
	h, ops := genHistory(t, o)
	h.Env = genEnv(t)
	var cls []string
	for k := range ops {
		cls = append(cls, k)
	}
	uids := map[string]int{}
	for _, d := range h.Pool {
		uids[d.uid()]++
	}
	for _, c := range uids {
		if c > 1 {
			cls = append(cls, "uid-collision")
		}
	}
	sort.Strings(cls)
	c15Rec.Eval(dedupe(cls)...)
	if len(h.Pool) >= 2 && (ops["reappear"] > 0 || ops["unassigned-then-assigned"] > 0 || ops["assigned-then-unassigned-update"] > 0 || ops["boundary-window"] > 0) {
		c15Rec.NontrivialCase(vt.Fingerprint(h), func() any {
			if len(h.Pool) > 40 {
				return map[string]any{"trips_total": len(h.Pool), "feeds": len(h.Feeds), "window": []int64{h.WindowStart, h.WindowEnd}, "first_trips": h.Pool[:3]}
			}
			return h
		})
	}
	vt.Run(t, c15Rec, *h, checkC15)
}

// ---------------------------------------------------------------------------------------------
// C14: the journal keeps passed stops and tracks the latest prediction for the rest.

var c14Rec = vt.NewRecorder("C14", "TestC14",
	"histories of 1-12 feeds for 1-3 always-assigned trips inside the window whose stop lists evolve by generated operations (drop k from the front, append, reroute from position p, empty, repeat a stop, fresh list starting at an unseen stop, vanish and reappear); "+
		"BuildJournal is run on every prefix. Oracle (invariant between consecutive prefixes): after an update U of n stops at time t the list ends with U (stop, arrival, departure, track, last observed t, not past); "+
		"what precedes is L[:k] for an index k at which U[0]'s stop occurs in the previous list L (any occurrence), any order-preserving sub-list of L when it does not occur, all of L when n=0; kept entries are unchanged except MarkedPast = old value if set else t; "+
		"a feed without the trip marks every not-yet-past entry with its time and changes nothing else. Non-trivial = >=3 feeds with a front-shrink and a reroute or growth")

func init() { registerReplay("C14", "TestC14", checkC14) }

func sameStop(a, b NJStop, ignoreMark bool) bool {
	if ignoreMark {
		a.MarkedPast, b.MarkedPast = nil, nil
	}
	return jsonStr(a) == jsonStr(b)
}

func checkC14(h History) error {
	if len(h.Pool) == 0 {
		return vt.Failf("malformed case")
	}
	prev := map[string]NJTrip{}
	for prefix := 1; prefix <= len(h.Feeds); prefix++ {
		f := &h.Feeds[prefix-1]
		cur := map[string]NJTrip{}
		for _, t := range normJournal(h.run(prefix)) {
			cur[t.UID] = t
		}
		updated := map[string][]JUpdate{}
		for _, u := range f.Updates {
			if u.Trip < 0 || u.Trip >= len(h.Pool) || len(h.Pool[u.Trip].ID) < 7 || !u.HasVehicle {
				return vt.Failf("malformed case (C14 needs always-assigned NYCT-shaped trips)")
			}
			uid := h.Pool[u.Trip].uid()
			updated[uid] = append(updated[uid], u)
		}
		for uid, ups := range updated {
			if len(ups) != 1 {
				return vt.Failf("malformed case: UID collision inside a feed (C14 uses distinct UIDs)")
			}
			U := ups[0].Stops
			now, ok := cur[uid]
			if !ok {
				return vt.Failf("after feed %d: updated trip %q is not in the journal", prefix, uid)
			}
			L := prev[uid].Stops
			Lp := now.Stops
			n := len(U)
			if len(Lp) < n {
				return vt.Failf("after feed %d: trip %q has %d stop times but the update has %d", prefix, uid, len(Lp), n)
			}
			head, tail := Lp[:len(Lp)-n], Lp[len(Lp)-n:]
			for i, s := range U {
				want := NJStop{StopID: s.StopID, Arr: s.Arr, Dep: s.Dep, Track: s.Track, LastObserved: f.CreatedAt}
				if !sameStop(tail[i], want, false) {
					return vt.Failf("after feed %d: trip %q: the list must end with the update; entry %d from the update is %s, want %s\n list   %s\n update %s", prefix, uid, i, jsonStr(tail[i]), jsonStr(want), jsonStr(Lp), jsonStr(U))
				}
			}
			// head against the previous list
			okHead := false
			why := ""
			kept := func(old NJStop, got NJStop) bool {
				want := old
				if want.MarkedPast == nil {
					t := f.CreatedAt
					want.MarkedPast = &t
				}
				return sameStop(got, want, false)
			}
			switch {
			case n == 0:
				okHead = len(head) == len(L)
				for i := 0; okHead && i < len(L); i++ {
					okHead = kept(L[i], head[i])
				}
				why = "an empty update keeps the whole list, marking not-yet-past entries past"
			default:
				occurs := false
				for k := range L {
					if L[k].StopID != U[0].StopID {
						continue
					}
					occurs = true
					if len(head) != k {
						continue
					}
					good := true
					for i := 0; i < k; i++ {
						if !kept(L[i], head[i]) {
							good = false
						}
					}
					if good {
						okHead = true
					}
				}
				why = "the entries before the update must be the previous list up to an occurrence of the update's first stop, unchanged and marked past"
				if !occurs {
					// first stop unknown: any order-preserving sub-list of L
					j := 0
					good := true
					for _, g := range head {
						found := false
						for j < len(L) {
							if kept(L[j], g) {
								found = true
								j++
								break
							}
							j++
						}
						if !found {
							good = false
						}
					}
					okHead = good
					why = "the update's first stop was not in the list: what precedes the update must still be an order-preserving sub-list of the previous entries"
				}
			}
			if !okHead {
				return vt.Failf("after feed %d (t=%d): trip %q: %s\n previous %s\n now      %s\n update   %s", prefix, f.CreatedAt, uid, why, jsonStr(L), jsonStr(Lp), jsonStr(U))
			}
		}
		// trips not in this feed
		for uid, old := range prev {
			if _, up := updated[uid]; up {
				continue
			}
			now, ok := cur[uid]
			if !ok {
				return vt.Failf("after feed %d: trip %q disappeared from the journal", prefix, uid)
			}
			if len(now.Stops) != len(old.Stops) {
				return vt.Failf("after feed %d: trip %q was not in the feed but its list changed length %d -> %d", prefix, uid, len(old.Stops), len(now.Stops))
			}
			for i := range old.Stops {
				want := old.Stops[i]
				if want.MarkedPast == nil {
					t := f.CreatedAt
					want.MarkedPast = &t
				}
				if !sameStop(now.Stops[i], want, false) {
					return vt.Failf("after feed %d (t=%d): trip %q not in the feed: entry %d is %s, want %s", prefix, f.CreatedAt, uid, i, jsonStr(now.Stops[i]), jsonStr(want))
				}
			}
		}
		prev = cur
	}
	return nil
}

func TestC14(t *testing.T) { rapid.Check(t, propC14) }

func propC14(t *rapid.T) {
	o := jGenOpts{MaxTrips: 3, MaxFeeds: 12, AlwaysAssigned: true, InsideWindow: true}
	if tierThorough() {
		o.MaxFeeds = 25
	}
	h, ops := genHistory(t, o)
	h.Env = genEnv(t)
	var cls []string
	for k := range ops {
		cls = append(cls, k)
	}
	repeated := false
	for _, f := range h.Feeds {
		for _, u := range f.Updates {
			seen := map[string]bool{}
			for _, s := range u.Stops {
				if seen[s.StopID] {
					repeated = true
				}
				seen[s.StopID] = true
			}
		}
	}
	if repeated {
		cls = append(cls, "repeated-stop")
	}
	sort.Strings(cls)
	c14Rec.Eval(cls...)
	if len(h.Feeds) >= 3 && ops["front-shrink"] > 0 && (ops["reroute"] > 0 || ops["growth"] > 0) {
		c14Rec.NontrivialCase(vt.Fingerprint(h), func() any {
			if len(h.Pool) > 40 {
				return map[string]any{"trips_total": len(h.Pool), "feeds": len(h.Feeds), "window": []int64{h.WindowStart, h.WindowEnd}, "first_trips": h.Pool[:3]}
			}
			return h
		})
	}
	vt.Run(t, c14Rec, *h, checkC14)
}

// TestC14Long: one trip whose stop list has tens of thousands of entries (a trip that is re-published for days, a loop line):
// whatever the journal does differently for long lists - a bounded search window, chunked storage - must not lose passed stops.
// Stop ids are distinct, so the alignment of every update is determined.
func TestC14Long(outer *testing.T) {
	fail := ""
	defer func() {
		if fail != "" {
			outer.Fatalf("%s", fail)
		}
	}()
	rapid.Check(outer, func(t *rapid.T) {
		n := rapid.SampledFrom([]int{9001, 33003, 40001, 70003}).Draw(t, "stops")
		h := &History{WindowStart: 0, WindowEnd: 1 << 40}
		h.Pool = []JTripDesc{{ID: "006000_L..N01R", RouteID: "L", Dir: 1, StartDate: 1_700_006_400, StartTimeSec: 3600}}
		tcur := int64(1_700_010_000)
		mk := func(i int, base int64) JStop {
			a, d := base+int64(i), base+int64(i)+30
			s := JStop{StopID: fmt.Sprintf("L%05d", i), Arr: &a, Dep: &d}
			if i%3 == 0 {
				tr := fmt.Sprint(i % 4)
				s.Track = &tr
			}
			return s
		}
		lo, hi := 0, n // the update covers stops lo..hi-1
		nF := rapid.IntRange(2, 4).Draw(t, "feeds")
		for fi := 0; fi < nF; fi++ {
			tcur += int64(rapid.SampledFrom([]int{1, 30, 120}).Draw(t, "dt"))
			if fi > 0 {
				switch rapid.IntRange(0, 3).Draw(t, "op") {
				case 0: // the vehicle passed a few stops
					lo += rapid.SampledFrom([]int{1, 5, 100}).Draw(t, "passed")
				case 1: // ... or very many
					lo += (hi - lo) / 2
				case 2: // short turn: only two stops left, deep inside the list
					lo = min(hi-2, lo+rapid.SampledFrom([]int{100, 40000}).Draw(t, "shortTurnAt"))
					hi = lo + 2
				default: // growth at the back
					lo += 3
					hi += rapid.IntRange(1, 5).Draw(t, "grown")
				}
				lo = max(0, min(lo, hi-1))
			}
			u := JUpdate{Trip: 0, HasVehicle: true, VehicleID: "0L 0100 A/B"}
			for i := lo; i < hi; i++ {
				u.Stops = append(u.Stops, mk(i, tcur))
			}
			h.Feeds = append(h.Feeds, JFeed{CreatedAt: tcur, Updates: []JUpdate{u}})
		}
		h.Env = genEnv(t)
		c14Rec.Eval(fmt.Sprintf("long-trip>=%d-stops", n))
		c14Rec.NontrivialCase(vt.Fingerprint([]any{n, nF, lo, hi}), func() any {
			return map[string]any{"stops_in_first_feed": n, "feeds": nF, "last_update_covers": []int{lo, hi}}
		})
		if msg := vt.Try(c14Rec, *h, checkC14); msg != "" && fail == "" {
			fail = msg
		}
	})
}

// TestC15Large: histories over 9000 and 100000 trips (three or four feeds, so that more than 65,536 are known when trips vanish and reappear) (few feeds, short stop lists) against the reference journal model.
func TestC15Large(outerT *testing.T) {
	for _, k := range [][2]int{{9001, 1}, {100003, 1}, {100003, 0}} {
		n, wide := k[0], k[1] == 1
		outerT.Run(fmt.Sprintf("%d-wide=%v", n, wide), func(outer *testing.T) {
			fail := ""
			defer func() {
				if fail != "" {
					outer.Fatalf("%s", fail)
				}
			}()
			rapid.Check(outer, func(t *rapid.T) {
				o := jGenOpts{MaxTrips: 6, MaxFeeds: 3, ForceHuge: n, InsideWindow: wide}
				h, _ := genHistory(t, o)
				h.Env = genEnv(t)
				c15Rec.Eval(fmt.Sprintf("large:trips>=%d", n))
				c15Rec.NontrivialCase(vt.Fingerprint([]any{n, len(h.Feeds), h.WindowStart, h.WindowEnd}), func() any {
					return map[string]any{"trips_total": len(h.Pool), "feeds": len(h.Feeds), "window": []int64{h.WindowStart, h.WindowEnd}}
				})
				if msg := vt.Try(c15Rec, *h, checkC15); msg != "" && fail == "" {
					fail = msg
				}
			})
		})
	}
}
