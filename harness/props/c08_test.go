package props

import (
	"fmt"
	"sort"
	"testing"

	"pgregory.net/rapid"

	"verifharness/sgen"
	"verifharness/vt"
)

// ---------------------------------------------------------------------------------------------
// C08: static output order - file order kept, sequences sorted, row order irrelevant.

type CaseC08 struct {
	vt.Env
	Feed      *sgen.Feed // stop_times and shapes rows grouped and ascending
	STPerm    []int      // row i of the permuted stop_times.txt is row STPerm[i] of Feed.StopTimes
	ShapePerm []int
	// Primers are earlier ParseStatic calls in the same process: the feed cut down to its first k trips (rows reversed), for
	// each k listed - feeds of other sizes before the one that is checked. The result must not depend on them.
	Primers []int `json:",omitempty"`
}

var c08Rec = vt.NewRecorder("C08", "TestC08",
	"well-formed feeds with >=2 trips of >=3 stop times and >=2 shapes of >=3 points (sequences distinct, non-contiguous, negative, multi-digit so string order != numeric order, > 2^31) "+
		"x a generated permutation of the stop_times.txt and shapes.txt rows (identity, reversed, round-robin interleaved, trip revisited after another trip, fully random). "+
		"Oracle: (i) direct - stop times strictly ascending by stop_sequence per trip, shapes ascending by id, shape points in sequence order and every file-ordered collection in file order (reference model); "+
		"(ii) metamorphic - the permuted archive gives the normal form of the sorted one; (iii) the result of the first call, still held, is unchanged and still ordered after the later call. Non-trivial = >=2 trips interleaved and some trip's rows out of order")

func init() { registerReplay("C08", "TestC08", checkC08) }

func applyPerm[T any](rows []T, perm []int) ([]T, bool) {
	if len(perm) != len(rows) {
		return nil, false
	}
	seen := make([]bool, len(rows))
	out := make([]T, len(rows))
	for i, p := range perm {
		if p < 0 || p >= len(rows) || seen[p] {
			return nil, false
		}
		seen[p] = true
		out[i] = rows[p]
	}
	return out, true
}

func checkC08(c CaseC08) error {
	if c.Feed == nil {
		return vt.Failf("malformed case")
	}
	base := c.Feed
	pf := *base
	var ok1, ok2 bool
	pf.StopTimes, ok1 = applyPerm(base.StopTimes, c.STPerm)
	pf.Shapes, ok2 = applyPerm(base.Shapes, c.ShapePerm)
	if !ok1 || !ok2 {
		return vt.Failf("malformed case: not permutations")
	}
	for _, k := range c.Primers {
		if k < 0 || k > len(base.Trips) {
			continue
		}
		small := *base
		small.Trips = base.Trips[:k]
		keep := map[string]bool{}
		for _, tr := range small.Trips {
			keep[tr.ID] = true
		}
		small.StopTimes, small.Frequencies = nil, nil
		for i := len(base.StopTimes) - 1; i >= 0; i-- {
			if keep[base.StopTimes[i].TripID] {
				small.StopTimes = append(small.StopTimes, base.StopTimes[i])
			}
		}
		for _, fr := range base.Frequencies {
			if keep[fr.TripID] {
				small.Frequencies = append(small.Frequencies, fr)
			}
		}
		parseStatic(small.Tables(), sgen.Canonical(), false)
	}
	s, err := parseStatic(pf.Tables(), sgen.Canonical(), false)
	if err != nil {
		return vt.Failf("ParseStatic rejected a well-formed archive: %v", err)
	}
	// (i) direct predicates on the library's structs
	for i := range s.Trips {
		st := s.Trips[i].StopTimes
		for j := 0; j+1 < len(st); j++ {
			if st[j].StopSequence >= st[j+1].StopSequence {
				return vt.FailSig("stop-times-unsorted", "Trips[%d] (%q): stop times not ascending by stop_sequence: %d then %d", i, s.Trips[i].ID, st[j].StopSequence, st[j+1].StopSequence)
			}
		}
	}
	if !sort.SliceIsSorted(s.Shapes, func(i, j int) bool { return s.Shapes[i].ID < s.Shapes[j].ID }) {
		return vt.FailSig("shapes-unsorted", "Shapes not ordered by id")
	}
	got := sgen.Normalize(s).SortedServices()
	want := sgen.Expect(base, sgen.Options{}).SortedServices()
	if d := sgen.Diff(got, want); d != "" {
		return vt.Failf("permuted archive differs from the reference order: %s", d)
	}
	// (ii) metamorphic
	s0, err := parseStatic(base.Tables(), sgen.Canonical(), false)
	if err != nil {
		return vt.Failf("ParseStatic rejected the sorted archive: %v", err)
	}
	if d := sgen.Diff(got, sgen.Normalize(s0).SortedServices()); d != "" {
		return vt.Failf("permuting the rows of stop_times.txt / shapes.txt changed the result: %s", d)
	}
	// the result of the first call, still held by the caller, is in the same order after the later call
	for i := range s.Trips {
		st := s.Trips[i].StopTimes
		for j := 0; j+1 < len(st); j++ {
			if st[j].StopSequence >= st[j+1].StopSequence {
				return vt.FailSig("retained-result-altered", "after a later ParseStatic call, Trips[%d] (%q) of the EARLIER result is no longer ascending by stop_sequence: %d then %d", i, s.Trips[i].ID, st[j].StopSequence, st[j+1].StopSequence)
			}
		}
	}
	if d := sgen.Diff(sgen.Normalize(s).SortedServices(), got); d != "" {
		return vt.FailSig("retained-result-altered", "a later ParseStatic call changed the result of the earlier one (order of its collections included): %s", d)
	}
	return nil
}

// genRowPerm draws a permutation of n rows grouped as given (group id per row, rows of a group contiguous).
func genRowPerm(t *rapid.T, label string, group []string) ([]int, string) {
	n := len(group)
	id := seqInts(n)
	if n < 2 {
		return id, "identity"
	}
	switch rapid.IntRange(0, 5).Draw(t, label+"Kind") {
	case 0:
		return id, "identity"
	case 1:
		out := make([]int, n)
		for i := range out {
			out[i] = n - 1 - i
		}
		return out, "reversed"
	case 2: // round robin over groups, descending inside each group
		byGroup := map[string][]int{}
		var order []string
		for i, g := range group {
			if _, ok := byGroup[g]; !ok {
				order = append(order, g)
			}
			byGroup[g] = append(byGroup[g], i)
		}
		var out []int
		for k := 0; len(out) < n; k++ {
			for _, g := range order {
				rows := byGroup[g]
				if k < len(rows) {
					out = append(out, rows[len(rows)-1-k])
				}
			}
		}
		return out, "interleaved"
	case 3: // first group split around the others: A-part, others, A-rest (trip revisited)
		first := group[0]
		var a, rest []int
		for i, g := range group {
			if g == first {
				a = append(a, i)
			} else {
				rest = append(rest, i)
			}
		}
		if len(a) < 2 || len(rest) == 0 {
			return rapid.Permutation(id).Draw(t, label+"Perm"), "random"
		}
		k := rapid.IntRange(1, len(a)-1).Draw(t, label+"Split")
		out := append(append(append([]int{}, a[k:]...), rest...), a[:k]...)
		return out, "revisited"
	default:
		return rapid.Permutation(id).Draw(t, label+"Perm"), "random"
	}
}

func TestC08(t *testing.T) { rapid.Check(t, propC08) }

func propC08(t *rapid.T) {
	o := sgen.DefaultGenOpts()
	o.SortedRows, o.ExplicitDefaults = true, true
	o.MinTrips, o.MinStopTimes, o.MinShapes, o.MinPoints = 2, 3, 2, 3
	o.MaxTrips, o.MaxStopTimes, o.MaxShapes, o.MaxPoints = 4, 6, 3, 6
	if tierThorough() && rapid.IntRange(0, 3).Draw(t, "large") == 0 {
		o.MaxTrips, o.MaxStopTimes, o.MaxShapes, o.MaxPoints = 12, 40, 6, 40
	}
	many := rapid.IntRange(0, 14).Draw(t, "many") == 0
	if many {
		// many distinct trips / shapes with few rows each: grouping structures that grow while rows of earlier groups still arrive
		n := rapid.SampledFrom([]int{17, 33, 40, 70, 130, 260}).Draw(t, "manyN")
		o.MinTrips, o.MaxTrips, o.MinShapes, o.MaxShapes = n, n, n, n
		o.MinStopTimes, o.MaxStopTimes, o.MinPoints, o.MaxPoints = 2, 3, 2, 3
		o.MaxStops, o.MaxFreq, o.MaxTransfers = 6, 0, 0
	} else if rapid.IntRange(0, 29).Draw(t, "longTrip") == 0 {
		// few groups with very many rows each
		n := rapid.SampledFrom([]int{130, 260, 1030}).Draw(t, "longN")
		o.MinTrips, o.MaxTrips, o.MinShapes, o.MaxShapes = 2, 2, 2, 2
		o.MinStopTimes, o.MaxStopTimes, o.MinPoints, o.MaxPoints = n, n, n, n
		o.MaxFreq, o.MaxTransfers = 0, 0
	}
	f, _ := sgen.GenFeed(t, o)
	var g1, g2 []string
	for _, st := range f.StopTimes {
		g1 = append(g1, st.TripID)
	}
	for _, sh := range f.Shapes {
		g2 = append(g2, sh.ShapeID)
	}
	p1, k1 := genRowPerm(t, "st", g1)
	p2, k2 := genRowPerm(t, "shape", g2)
	c := CaseC08{Feed: f, STPerm: p1, ShapePerm: p2}
	if rapid.IntRange(0, 2).Draw(t, "primers?") == 0 && len(f.Trips) <= 40 {
		for i := rapid.IntRange(1, 3).Draw(t, "nPrimers"); i > 0; i-- {
			c.Primers = append(c.Primers, rapid.IntRange(0, len(f.Trips)).Draw(t, "primerTrips"))
		}
	}
	c.Env = genEnv(t)
	cls08 := []string{"stop_times:" + k1, "shapes:" + k2}
	if many {
		cls08 = append(cls08, fmt.Sprintf("many-groups-%d", len(f.Trips)))
	}
	c08Rec.Eval(cls08...)
	// non-trivial: two trips interleaved and some trip's rows out of order
	interleaved, outOfOrder := false, false
	lastSeq := map[string]int{}
	seenDone := map[string]bool{}
	prev := ""
	for _, p := range p1 {
		r := f.StopTimes[p]
		if r.TripID != prev {
			if seenDone[r.TripID] {
				interleaved = true
			}
			if prev != "" {
				seenDone[prev] = true
			}
			prev = r.TripID
		}
		if ls, ok := lastSeq[r.TripID]; ok && r.Seq < ls {
			outOfOrder = true
		}
		lastSeq[r.TripID] = r.Seq
	}
	if interleaved && outOfOrder {
		c08Rec.NontrivialCase(vt.Fingerprint(c), func() any {
			var rows [][]any
			for _, p := range p1 {
				rows = append(rows, []any{f.StopTimes[p].TripID, f.StopTimes[p].Seq})
			}
			return map[string]any{"stop_times_rows(trip,seq)": rows, "shape_perm": p2}
		})
	}
	vt.Run(t, c08Rec, c, checkC08)
}

// TestC08Large: tens of thousands of trips with a few stop times each, or one trip / one shape with tens of thousands of rows,
// all rows written in descending sequence: whatever sorts or groups differently beyond a size must still sort every trip and
// every shape. Every (kind, size) combination runs in every tier.
func TestC08Large(t *testing.T) {
	type cfg struct {
		kind string
		n    int
	}
	for _, k := range []cfg{{"trips", 9001}, {"trips", 16387}, {"trips", 20003}, {"trips", 65539}, {"rows-per-trip", 9001}, {"rows-per-trip", 70001}} {
		k := k
		t.Run(fmt.Sprintf("%s-%d", k.kind, k.n), func(outer *testing.T) {
			fail := ""
			defer func() {
				if fail != "" {
					outer.Fatalf("%s", fail)
				}
			}()
			rapid.Check(outer, func(t *rapid.T) {
				o := sgen.DefaultGenOpts()
				o.MinTrips, o.MaxTrips, o.MinShapes, o.MaxShapes = 2, 3, 2, 2
				o.MinStopTimes, o.MaxStopTimes, o.MinPoints, o.MaxPoints = 3, 3, 3, 3
				o.MaxFreq, o.MaxTransfers = 0, 0
				base, _ := sgen.GenFeed(t, o)
				f := *base
				f.Trips = append([]sgen.Trip(nil), base.Trips...)
				f.StopTimes = append([]sgen.StopTime(nil), base.StopTimes...)
				f.Shapes = append([]sgen.ShapeRow(nil), base.Shapes...)
				byTrip := map[string][]sgen.StopTime{}
				for _, st := range base.StopTimes {
					byTrip[st.TripID] = append(byTrip[st.TripID], st)
				}
				if k.kind == "trips" {
					for i := 0; len(f.Trips) < k.n; i++ {
						tr := base.Trips[i%len(base.Trips)]
						orig := tr.ID
						tr.ID = fmt.Sprintf("%s~%d", orig, i)
						f.Trips = append(f.Trips, tr)
						for _, st := range byTrip[orig] {
							st.TripID = tr.ID
							f.StopTimes = append(f.StopTimes, st)
						}
					}
				} else {
					tr := base.Trips[0]
					rows := byTrip[tr.ID]
					if len(rows) == 0 || len(base.Shapes) == 0 {
						t.Skip("no rows to extend")
					}
					last := rows[len(rows)-1]
					maxSeq := 0
					for _, r := range rows {
						maxSeq = max(maxSeq, r.Seq)
					}
					for i := 0; i < k.n; i++ {
						st := last
						st.Seq = maxSeq + 1 + i
						f.StopTimes = append(f.StopTimes, st)
					}
					lastPt := base.Shapes[len(base.Shapes)-1]
					maxPt := 0
					for _, r := range base.Shapes {
						if r.ShapeID == lastPt.ShapeID {
							maxPt = max(maxPt, r.Seq)
						}
					}
					for i := 0; i < k.n; i++ {
						r := lastPt
						r.Seq = maxPt + 1 + i
						f.Shapes = append(f.Shapes, r)
					}
				}
				// canonical order first (grouped, ascending), then everything reversed: every group arrives in descending sequence
				sort.SliceStable(f.StopTimes, func(i, j int) bool {
					if f.StopTimes[i].TripID != f.StopTimes[j].TripID {
						return f.StopTimes[i].TripID < f.StopTimes[j].TripID
					}
					return f.StopTimes[i].Seq < f.StopTimes[j].Seq
				})
				sort.SliceStable(f.Shapes, func(i, j int) bool {
					if f.Shapes[i].ShapeID != f.Shapes[j].ShapeID {
						return f.Shapes[i].ShapeID < f.Shapes[j].ShapeID
					}
					return f.Shapes[i].Seq < f.Shapes[j].Seq
				})
				rev := func(n int) []int {
					out := make([]int, n)
					for i := range out {
						out[i] = n - 1 - i
					}
					return out
				}
				c := CaseC08{Feed: &f, STPerm: rev(len(f.StopTimes)), ShapePerm: rev(len(f.Shapes))}
				c.Env = genEnv(t)
				c08Rec.Eval(fmt.Sprintf("large:%s>=%d", k.kind, k.n))
				c08Rec.NontrivialCase(vt.Fingerprint([]any{k.kind, k.n, len(f.Trips), len(f.StopTimes)}), func() any {
					return map[string]any{"kind": k.kind, "trips": len(f.Trips), "stop_times_rows": len(f.StopTimes), "shape_rows": len(f.Shapes), "row_order": "reversed"}
				})
				if msg := vt.Try(c08Rec, c, checkC08); msg != "" && fail == "" {
					fail = msg
				}
			})
		})
	}
}
