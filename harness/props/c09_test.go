package props

import (
	"fmt"
	"reflect"
	"sort"
	"strings"
	"testing"

	"pgregory.net/rapid"

	"verifharness/sgen"
	"verifharness/vt"
)

// ---------------------------------------------------------------------------------------------
// C09: rejected static rows are inert, and reported warnings describe the offending row.

type BadRow struct {
	File  string
	Pos   int // inserted before original data row Pos of that file (len = after the last)
	Cells []string
	Cause string
}

type CaseC09 struct {
	vt.Env
	Feed    *sgen.Feed
	Bad     []BadRow
	Inherit bool
}

type c09Cause struct {
	Name   string
	Col    string
	Values []string // "" = blank the cell
}

// The catalogue follows the statement: a required value missing, a required number / time / date
// unparseable, a required reference naming an id that does not exist.
var c09Catalogue = map[string][]c09Cause{
	"agency.txt": {
		{"blank-name", "agency_name", []string{""}}, {"blank-url", "agency_url", []string{""}}, {"blank-timezone", "agency_timezone", []string{""}},
	},
	"routes.txt": {
		{"blank-id", "route_id", []string{""}}, {"blank-type", "route_type", []string{""}}, {"unknown-agency", "agency_id", []string{"NOPE-agency", "nope", "@pad-right", "@pad-left"}},
	},
	"stops.txt": {
		{"blank-id", "stop_id", []string{""}},
	},
	"transfers.txt": {
		{"blank-from", "from_stop_id", []string{""}}, {"blank-to", "to_stop_id", []string{""}},
		{"unknown-from", "from_stop_id", []string{"NOPE-stop", "@pad-right"}}, {"unknown-to", "to_stop_id", []string{"NOPE-stop", "@pad-left"}},
	},
	"calendar.txt": {
		{"blank-id", "service_id", []string{""}}, {"blank-weekday", "monday", []string{""}}, {"blank-weekday", "sunday", []string{""}},
		{"blank-start", "start_date", []string{""}}, {"blank-end", "end_date", []string{""}},
		{"bad-start", "start_date", []string{"2022-01-01", "20221345", "abc", "2022010", "20220101x"}},
		{"bad-end", "end_date", []string{"2022-01-01", "20220230", "tomorrow"}},
	},
	"calendar_dates.txt": {
		{"blank-id", "service_id", []string{""}}, {"blank-date", "date", []string{""}}, {"blank-type", "exception_type", []string{""}},
		{"bad-date", "date", []string{"2022-01-01", "20221345", "abc", "0"}},
	},
	"shapes.txt": {
		{"blank-id", "shape_id", []string{""}}, {"blank-lat", "shape_pt_lat", []string{""}}, {"blank-lon", "shape_pt_lon", []string{""}}, {"blank-seq", "shape_pt_sequence", []string{""}},
		{"bad-lat", "shape_pt_lat", []string{"abc", "1e400", "1,5", "--1"}}, {"bad-lon", "shape_pt_lon", []string{"east", "12.3.4"}},
		{"bad-seq", "shape_pt_sequence", []string{"abc", "1.5", "99999999999", "0x10"}},
	},
	"trips.txt": {
		{"blank-route", "route_id", []string{""}}, {"blank-service", "service_id", []string{""}}, {"blank-id", "trip_id", []string{""}},
		{"unknown-route", "route_id", []string{"NOPE-route", "@pad-right", "@pad-left"}}, {"unknown-service", "service_id", []string{"NOPE-service", "@pad-right"}},
	},
	"frequencies.txt": {
		{"blank-trip", "trip_id", []string{""}}, {"blank-start", "start_time", []string{""}}, {"blank-end", "end_time", []string{""}}, {"blank-headway", "headway_secs", []string{""}},
		{"unknown-trip", "trip_id", []string{"NOPE-trip", "@pad-right"}}, {"bad-headway", "headway_secs", []string{"abc", "1.5", "99999999999"}},
		{"bad-start", "start_time", []string{"x", "1:2:3:4", "12-00-00"}}, {"bad-end", "end_time", []string{"noon", "::::"}},
	},
	"stop_times.txt": {
		{"blank-stop", "stop_id", []string{""}}, {"blank-trip", "trip_id", []string{""}}, {"blank-seq", "stop_sequence", []string{""}},
		{"unknown-stop", "stop_id", []string{"NOPE-stop", "@pad-right", "@pad-left"}}, {"unknown-trip", "trip_id", []string{"NOPE-trip", "@pad-right", "@pad-left", "@upper-tab"}},
		{"bad-seq", "stop_sequence", []string{"abc", "1.5", "1e3"}},
	},
}

// own-id column per file: a bad row may keep the id of the valid row it was copied from or get a fresh one
var c09IDCol = map[string]string{"agency.txt": "agency_id", "routes.txt": "route_id", "stops.txt": "stop_id", "calendar.txt": "service_id",
	"trips.txt": "trip_id", "shapes.txt": "shape_id"}

var c09Rec = vt.NewRecorder("C09", "TestC09",
	"well-formed feeds x 1-5 inserted invalid rows drawn from an explicit catalogue (cause in {required value blank, required number/time/date unparseable, required reference unknown} x all ten files x position {first, between, last}); "+
		"an invalid row is a copy of a valid row of its file with the offending cell replaced, keeping or refreshing its own id (so rejected rows may reuse ids, parents and trips of valid rows). "+
		"Oracle: metamorphic - everything except Warnings equals the parse without the rows (and the reference model); every warning carrying a row names its file, 1-based row number, exactly that row's cells and the header. "+
		"Non-trivial = >=1 invalid row followed by a valid row of the same file")

var c09EnumRec = vt.NewRecorder("C09", "TestC09Enum",
	"fault enumeration: for every generated base feed, every catalogue entry (file x cause x value, incl. a row of separators only) is inserted alone at every position class {first, middle, last}, and every ordered pair of agency.txt causes at three position pairs - the cause x file x position space is covered completely per base feed")

func init() {
	for file := range c09Catalogue {
		// a row of separators only (",,,"): every required value is missing, so it is rejected in every file
		c09Catalogue[file] = append(c09Catalogue[file], c09Cause{"all-cells-blank", "*", []string{""}})
	}
	registerReplay("C09", "TestC09", checkC09)
	registerReplay("C09", "TestC09Enum", checkC09)
}

func c09Apply(ts sgen.Tables, bad []BadRow) (sgen.Tables, map[string][]int, error) {
	out := ts.Clone()
	badIdx := map[string][]int{} // file -> 1-based row numbers of inserted rows
	byFile := map[string][]BadRow{}
	for _, b := range bad {
		byFile[b.File] = append(byFile[b.File], b)
	}
	for file, rows := range byFile {
		tb := out.Get(file)
		if tb == nil {
			return nil, nil, fmt.Errorf("no table %s", file)
		}
		sort.SliceStable(rows, func(i, j int) bool { return rows[i].Pos < rows[j].Pos })
		var merged [][]string
		k := 0
		for i := 0; i <= len(tb.Rows); i++ {
			for k < len(rows) && rows[k].Pos <= i {
				if len(rows[k].Cells) != len(tb.Header) {
					return nil, nil, fmt.Errorf("bad row for %s has %d cells, header %d", file, len(rows[k].Cells), len(tb.Header))
				}
				merged = append(merged, rows[k].Cells)
				badIdx[file] = append(badIdx[file], len(merged))
				k++
			}
			if i < len(tb.Rows) {
				merged = append(merged, tb.Rows[i])
			}
		}
		for ; k < len(rows); k++ {
			merged = append(merged, rows[k].Cells)
			badIdx[file] = append(badIdx[file], len(merged))
		}
		tb.Rows = merged
	}
	return out, badIdx, nil
}

func checkC09(c CaseC09) error {
	if c.Feed == nil {
		return vt.Failf("malformed case")
	}
	clean := c.Feed.Tables()
	dirty, _, err := c09Apply(clean, c.Bad)
	if err != nil {
		return vt.Failf("malformed case: %v", err)
	}
	causes := ""
	for i, b := range c.Bad {
		if i == 12 {
			causes += fmt.Sprintf(" ... (%d rows)", len(c.Bad))
			break
		}
		causes += fmt.Sprintf(" %s:%s@%d", b.File, b.Cause, b.Pos)
	}
	s1, err := parseStatic(dirty, sgen.Canonical(), c.Inherit)
	if err != nil {
		return vt.Failf("ParseStatic failed on an archive whose only problem is rejected rows (%s): %v", causes, err)
	}
	s0, err := parseStatic(clean, sgen.Canonical(), c.Inherit)
	if err != nil {
		return vt.Failf("ParseStatic rejected a well-formed archive: %v", err)
	}
	got, base := sgen.Normalize(s1).SortedServices(), sgen.Normalize(s0).SortedServices()
	if d := sgen.Diff(got, base); d != "" {
		sig := "not-inert"
		if len(c.Bad) == 1 {
			sig = "not-inert:" + c.Bad[0].File + ":" + c.Bad[0].Cause
		}
		return vt.FailSig(sig, "inserting rejected rows (%s) changed the result: %s", causes, d)
	}
	want := sgen.Expect(c.Feed, sgen.Options{InheritWheelchairBoarding: c.Inherit}).SortedServices()
	if d := sgen.Diff(got, want); d != "" {
		return vt.Failf("result differs from the reference model: %s", d)
	}
	// warnings
	for wi, w := range s1.Warnings {
		tb := dirty.Get(string(w.File))
		if tb == nil {
			return vt.Failf("Warnings[%d] names file %q which is not in the archive", wi, w.File)
		}
		if !reflect.DeepEqual(w.HeaderContent, tb.Header) {
			return vt.Failf("Warnings[%d] (%s): header content %q, file header is %q", wi, w.File, w.HeaderContent, tb.Header)
		}
		if w.RowNumber == 0 {
			continue // file-level warning
		}
		if w.RowNumber < 0 || w.RowNumber > len(tb.Rows) {
			return vt.Failf("Warnings[%d] (%s): row number %d, file has %d rows", wi, w.File, w.RowNumber, len(tb.Rows))
		}
		if !reflect.DeepEqual(w.RowContent, tb.Rows[w.RowNumber-1]) {
			return vt.FailSig("warning-row-content", "Warnings[%d] (%s row %d): row content %q, but that row is %q", wi, w.File, w.RowNumber, w.RowContent, tb.Rows[w.RowNumber-1])
		}
	}
	// (Warnings about rows that were not rejected are outside the statement: they are only required to describe the row they name,
	// which the loop above has checked for every warning that carries a row.)
	return nil
}

// c09MakeRow builds an invalid row for file from template row tpl.
func c09MakeRow(tb *sgen.Table, tpl []string, cause c09Cause, value string, freshID string) []string {
	row := append([]string(nil), tpl...)
	if idc, ok := c09IDCol[tb.Name]; ok && freshID != "" {
		if ci := tb.Col(idc); ci >= 0 {
			row[ci] = freshID
		}
	}
	// make the payload of the rejected row distinguishable from the row it was copied from, so that data
	// leaking from a rejected row into a valid one (same id) is visible
	for _, col := range c09Payload[tb.Name] {
		if ci := tb.Col(col.Name); ci >= 0 && col.Name != cause.Col {
			row[ci] = col.Value
		}
	}
	if cause.Col == "*" {
		for i := range row {
			row[i] = ""
		}
		return row
	}
	if strings.HasPrefix(value, "@") {
		// a value derived from the id the template row names: the same id with white space around it is another id
		orig := row[tb.Col(cause.Col)]
		switch value {
		case "@pad-right":
			value = orig + " \u00a0" // no generated id ends like this, so the padded id is certainly not defined
		case "@pad-left":
			value = "\u00a0 " + orig
		default:
			value = strings.ToUpper(orig) + "\t"
		}
		if value == orig || orig == "" {
			value = "NOPE"
		}
	}
	row[tb.Col(cause.Col)] = value
	return row
}

type c09PayloadCol struct{ Name, Value string }

var c09Payload = map[string][]c09PayloadCol{
	"agency.txt":      {{"agency_lang", "BAD~lang"}, {"agency_phone", "BAD~phone"}},
	"routes.txt":      {{"route_short_name", "BAD~short"}, {"route_long_name", "BAD~long"}, {"route_desc", "BAD~desc"}, {"route_color", "BADBAD"}, {"route_sort_order", "777"}},
	"stops.txt":       {{"stop_code", "BAD~code"}, {"stop_name", "BAD~name"}, {"stop_desc", "BAD~desc"}, {"platform_code", "BAD"}, {"wheelchair_boarding", "2"}},
	"transfers.txt":   {{"min_transfer_time", "777"}, {"transfer_type", "3"}},
	"shapes.txt":      {{"shape_dist_traveled", "777.5"}},
	"trips.txt":       {{"trip_headsign", "BAD~headsign"}, {"trip_short_name", "BAD~short"}, {"block_id", "BAD~block"}, {"bikes_allowed", "2"}},
	"frequencies.txt": {{"exact_times", "1"}},
	"stop_times.txt":  {{"stop_headsign", "BAD~headsign"}, {"shape_dist_traveled", "777.5"}, {"pickup_type", "3"}},
}

func c09Nontrivial(ts sgen.Tables, bad []BadRow) bool {
	for _, b := range bad {
		if tb := ts.Get(b.File); tb != nil && b.Pos < len(tb.Rows) {
			return true
		}
	}
	return false
}

func genC09Base(t *rapid.T) *sgen.Feed {
	o := sgen.DefaultGenOpts()
	o.MinTrips, o.MinStopTimes, o.MinShapes, o.MinPoints = 1, 1, 1, 1
	o.ExplicitDefaults = rapid.Bool().Draw(t, "explicit")
	if rapid.IntRange(0, 49).Draw(t, "large") < map[bool]int{true: 10, false: 1}[tierThorough()] {
		o = sgen.LargeGenOpts()
		o.MinTrips, o.MinStopTimes, o.MinShapes, o.MinPoints = 1, 1, 1, 1
	}
	f, _ := sgen.GenFeed(t, o)
	return f
}

func TestC09(t *testing.T) { rapid.Check(t, propC09) }

func propC09(t *rapid.T) {
	f := genC09Base(t)
	ts := f.Tables()
	n := rapid.IntRange(1, 5).Draw(t, "nBad")
	var bad []BadRow
	var classes []string
	for i := 0; i < n; i++ {
		file := rapid.SampledFrom(sgen.FileOrder).Draw(t, "badFile")
		tb := ts.Get(file)
		if len(tb.Rows) == 0 {
			continue
		}
		cause := rapid.SampledFrom(c09Catalogue[file]).Draw(t, "cause")
		value := rapid.SampledFrom(cause.Values).Draw(t, "value")
		tpl := tb.Rows[rapid.IntRange(0, len(tb.Rows)-1).Draw(t, "template")]
		fresh := ""
		if rapid.Bool().Draw(t, "freshID") {
			fresh = fmt.Sprintf("bad-%d", i)
		}
		pos := rapid.SampledFrom([]int{0, len(tb.Rows), rapid.IntRange(0, len(tb.Rows)).Draw(t, "posAny")}).Draw(t, "pos")
		bad = append(bad, BadRow{File: file, Pos: pos, Cells: c09MakeRow(tb, tpl, cause, value, fresh), Cause: cause.Name})
		classes = append(classes, file+":"+cause.Name)
	}
	if rapid.IntRange(0, 39).Draw(t, "burst") == 0 {
		// size class: hundreds or thousands of rejected rows in one file (every second time the file whose rejections are
		// reported as warnings), spread over its positions
		file := "agency.txt"
		if rapid.Bool().Draw(t, "burstAnyFile") {
			file = rapid.SampledFrom(sgen.FileOrder).Draw(t, "burstFile")
		}
		if tb := ts.Get(file); len(tb.Rows) > 0 {
			nb := rapid.SampledFrom([]int{17, 70, 300, 1100, 2100, 4200, 8300}).Draw(t, "burstN")
			causes := c09Catalogue[file]
			first := rapid.IntRange(0, 1000).Draw(t, "burstFirstCause")
			for i := 0; i < nb; i++ {
				cause := causes[(first+i)%len(causes)]
				bad = append(bad, BadRow{File: file, Pos: (i * 7) % (len(tb.Rows) + 1), Cells: c09MakeRow(tb, tb.Rows[i%len(tb.Rows)], cause, cause.Values[i%len(cause.Values)], fmt.Sprintf("burst-%d", i)), Cause: cause.Name})
			}
			classes = append(classes, fmt.Sprintf("burst>=%d", nb))
		}
	}
	c := CaseC09{Feed: f, Bad: bad, Inherit: rapid.Bool().Draw(t, "inherit")}
	c.Env = genEnv(t)
	c09Rec.Eval(dedupe(classes)...)
	if c09Nontrivial(ts, bad) {
		c09Rec.NontrivialCase(vt.Fingerprint(c), func() any {
			return map[string]any{"bad_rows": bad[:min(len(bad), 8)], "bad_rows_total": len(bad), "files": ts}
		})
	}
	vt.Run(t, c09Rec, c, checkC09)
}

func TestC09Enum(t *testing.T) {
	rapid.Check(t, func(t *rapid.T) {
		f := genC09Base(t)
		ts := f.Tables()
		inherit := rapid.Bool().Draw(t, "inherit")
		tplPick := rapid.IntRange(0, 1000).Draw(t, "tplPick")
		// pairs of rejected rows in the one file whose rejections are reported as warnings: a later warning must still
		// name its own row whatever kind of rejected row came before it
		if tb := ts.Get("agency.txt"); len(tb.Rows) > 0 {
			causes := c09Catalogue["agency.txt"]
			for i, first := range causes {
				for j, second := range causes {
					for _, pos := range [][2]int{{0, 0}, {0, len(tb.Rows)}, {len(tb.Rows) / 2, len(tb.Rows)}} {
						tpl := tb.Rows[(tplPick+i+j)%len(tb.Rows)]
						bad := []BadRow{
							{File: "agency.txt", Pos: pos[0], Cells: c09MakeRow(tb, tpl, first, first.Values[0], "bad-1"), Cause: first.Name},
							{File: "agency.txt", Pos: pos[1], Cells: c09MakeRow(tb, tpl, second, second.Values[0], "bad-2"), Cause: second.Name},
						}
						c := CaseC09{Feed: f, Bad: bad, Inherit: inherit}
						c09EnumRec.Eval("agency.txt:pair")
						c09EnumRec.NontrivialCase(vt.Fingerprint(c), func() any { return map[string]any{"bad_rows": bad, "table": tb} })
						vt.Run(t, c09EnumRec, c, checkC09)
					}
				}
			}
		}
		for _, file := range sgen.FileOrder {
			tb := ts.Get(file)
			if len(tb.Rows) == 0 {
				c09EnumRec.Exclude(file + ": no valid row to copy in this base feed")
				continue
			}
			for ci, cause := range c09Catalogue[file] {
				for vi, value := range cause.Values {
					positions := []int{0, len(tb.Rows) / 2, len(tb.Rows)}
					for pi, pos := range positions {
						tpl := tb.Rows[(tplPick+ci+vi+pi)%len(tb.Rows)]
						fresh := ""
						if (ci+vi+pi)%2 == 0 {
							fresh = "bad-row"
						}
						bad := []BadRow{{File: file, Pos: pos, Cells: c09MakeRow(tb, tpl, cause, value, fresh), Cause: cause.Name}}
						c := CaseC09{Feed: f, Bad: bad, Inherit: inherit}
						c09EnumRec.Eval(file + ":" + cause.Name)
						if c09Nontrivial(ts, bad) {
							c09EnumRec.NontrivialCase(vt.Fingerprint(c), func() any { return map[string]any{"bad_rows": bad, "table": tb} })
						}
						vt.Run(t, c09EnumRec, c, checkC09)
					}
				}
			}
		}
	})
}

// TestC09Large: 12000 and 70000 rejected rows in one file (agency.txt, whose rejections are reported; stops.txt; stop_times.txt),
// spread over the positions of the file. Every (file, size) combination runs in every tier.
func TestC09Large(t *testing.T) {
	for _, file := range []string{"agency.txt", "stops.txt", "stop_times.txt", "calendar_dates.txt"} {
		for _, n := range []int{12001, 70003} {
			file, n := file, n
			t.Run(fmt.Sprintf("%s-%d", file, n), func(outer *testing.T) {
				fail := ""
				defer func() {
					if fail != "" {
						outer.Fatalf("%s", fail)
					}
				}()
				rapid.Check(outer, func(t *rapid.T) {
					f := genC09Base(t)
					ts := f.Tables()
					tb := ts.Get(file)
					if len(tb.Rows) == 0 {
						t.Skip("no valid row to copy")
					}
					causes := c09Catalogue[file]
					first := rapid.IntRange(0, 1000).Draw(t, "firstCause")
					var bad []BadRow
					for i := 0; i < n; i++ {
						cause := causes[(first+i)%len(causes)]
						bad = append(bad, BadRow{File: file, Pos: (i * 7) % (len(tb.Rows) + 1), Cells: c09MakeRow(tb, tb.Rows[i%len(tb.Rows)], cause, cause.Values[i%len(cause.Values)], fmt.Sprintf("burst-%d", i)), Cause: cause.Name})
					}
					c := CaseC09{Feed: f, Bad: bad, Inherit: rapid.Bool().Draw(t, "inherit")}
					c.Env = genEnv(t)
					c09Rec.Eval(fmt.Sprintf("large:%s:rejected-rows>=%d", file, n))
					c09Rec.NontrivialCase(vt.Fingerprint([]any{file, n, first}), func() any {
						return map[string]any{"file": file, "rejected_rows": n}
					})
					if msg := vt.Try(c09Rec, c, checkC09); msg != "" && fail == "" {
						fail = msg
					}
				})
			})
		}
	}
}
