#!/usr/bin/env python3
"""Regenerates MANIFEST.json from checkcfg.CONFIG (claimed checks) and properties.jsonl."""
import json, os, sys
ROOT = os.path.dirname(os.path.abspath(__file__))
sys.path.insert(0, ROOT)
from checkcfg import CONFIG, NOT_APPLICABLE

props = [json.loads(l)["id"] for l in open(os.path.join(ROOT, "properties.jsonl"))]
checks = []
for pid in props:
    if pid not in CONFIG:
        continue
    c = CONFIG[pid]
    checks.append({
        "property_id": pid,
        "quick_cmd": "./check %s --tier quick" % pid,
        "thorough_cmd": "./check %s --tier thorough" % pid,
        "evidence_file": "/verif/evidence/%s.json" % pid,
        "replay_cmd_template": "./check %s --replay {path}" % pid,
        "engine": "rapid-harness",
        "level_claimed": {"category": c.get("level", "exploration"), "text": c["level_text"], "design_ref": c.get("design_ref", "DESIGN.md §4 " + pid)},
        "level_note": c["level_note"],
        "technique": c["technique"],
    })
na = [{"property_id": p, "reason": NOT_APPLICABLE.get(p, "check not built yet in this session (work in progress; see DESIGN.md §4)")}
      for p in props if p not in CONFIG]
manifest = {
    "version": 1,
    "setup_cmd": "./setup.sh",
    "hooks": {
        "guard": "verif",
        "enable": "checks build the harness with `go test -tags verif`; no hook code exists in /repo (every observation point is public API), so the tag guards nothing",
        "baseline_off_cmd": "cd /repo && go test -vet=off -count=1 -timeout 25m ./...",
        "source_commits": [],
        "add_only": True,
    },
    "engines": [{
        "name": "rapid-harness", "path": "/verif/harness",
        "serves_properties": [c["property_id"] for c in checks],
        "kind_free_text": "Go test binary (pgregory.net/rapid v1.3.0 generators + shrinking, native go fuzzing in the thorough tier) built against /repo's working tree through a replace directive; driver ./check shards it, merges per-run counters into evidence/<id>.json and turns shrunk failures into replay files",
    }],
    "checks": checks,
    "notes": "exit 0 = held; exit 1 + VIOLATION line = violation not listed in KNOWN_FINDINGS.txt; exit 2 = inconclusive (build failure, timeout, case-count shortfall). VERIF_SEED selects the rapid seed (0 is remapped). Quick tier never uses native fuzzing.",
    "not_applicable": na,
}
json.dump(manifest, open(os.path.join(ROOT, "MANIFEST.json"), "w"), indent=1)
print("claimed:", [c["property_id"] for c in checks], "not claimed:", [x["property_id"] for x in na])
