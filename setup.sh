#!/bin/sh
# Offline setup: compile the harness once so that later checks only re-link. Nothing is fetched.
set -e
cd "$(dirname "$0")/harness"
export GOFLAGS=-mod=mod GOPROXY=off GOSUMDB=off GOTOOLCHAIN=local
mkdir -p ../.build ../evidence ../replays/found
go vet -tags verif ./vt >/dev/null 2>&1 || true
go test -c -tags verif -o ../.build/setup.test ./props
go test -c -race -tags verif -o ../.build/setup.race.test ./props
rm -f ../.build/setup.test ../.build/setup.race.test
echo "setup ok"
