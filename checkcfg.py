# Per-property run configuration for ./check. "quick"/"thorough" are case counts for rapid tests
# (thorough counts are split over the shards) or the VERIF_N value handed to plain tests.
CONFIG = {
    "C01": {
        "level": "exploration",
        "level_text": "generated well-formed feeds rendered to real zip/CSV bytes under generated presentations and compared, whole tree with pointers followed, against an independent reference transcription and against the canonical presentation of the same tables; exploration because the claim is all rows x all columns x all presentations",
        "level_note": "trusts strconv.ParseFloat for decimal->double and Go's time package for zones; dates avoid days without a unique local midnight (counted); Services compared as an id-keyed set (their order is C06's business); blank lines and header whitespace are not among the listed presentations and are not generated",
        "technique": "property-based testing (rapid): reference model + metamorphic presentation invariance",
        "tests": [{"name": "TestC01", "quick": 6000, "thorough": 400000}],
        "assumptions": ["location_type 0/blank with a parent is the library's Platform (pinned by the suite)"],
    },
    "C04": {
        "level": "exploration",
        "level_text": "generated conflict-free messages built from association patterns (who carries the link, how the vehicle is identified, entity order) plus an exhaustive pattern x permutation table; the parsed cross references are followed on the real structs and compared with a reference association model",
        "level_note": "content equality (not pointer identity) is what the statement promises and what is checked; empty vehicle descriptors inside trip updates are outside the domain",
        "technique": "property-based testing (rapid) against a reference association model + exhaustive small-pattern enumeration over all entity permutations",
        "tests": [{"name": "TestC04", "quick": 15000, "thorough": 1600000}, {"name": "TestC04Patterns", "kind": "plain", "quick": 1, "thorough": 1}],
        "assumptions": ["each trip is associated with at most one vehicle and vice versa (the property's domain)"],
    },
    "C07": {
        "level": "exploration",
        "level_text": "metamorphic: every permutation (all n! up to 4 entities, sampled beyond) of generated conflict-free messages must give the same trips, vehicles, links and relatively ordered alerts, and agree with the reference model so the own entity's data wins; invariant: uniqueness and sortedness on arbitrary messages with conflicting duplicates; algebraic: TripID.Less is a strict total order",
        "level_note": "sortedness is checked with the library's own TripID.Less plus the primary key ID.ID; order-independence only over conflict-free messages as the statement says",
        "technique": "property-based metamorphic testing over entity permutations (rapid) + invariant checks on arbitrary messages + order-law check",
        "tests": [{"name": "TestC07Perm", "quick": 2500, "thorough": 320000}, {"name": "TestC07Any", "quick": 10000, "thorough": 1600000}, {"name": "TestC07Less", "quick": 20000, "thorough": 1600000}],
        "assumptions": [],
    },
    "C12": {
        "level": "exploration",
        "level_text": "generated alerts over the combinatorial selector space compared with a reference normalisation written from the statement; where the statement is silent (routes named by partial descriptors, order of route-level entities) the oracle accepts every reading",
        "level_note": "presence of a string field means non-empty; the route-level entities are compared as a set",
        "technique": "property-based testing (rapid) against a reference normalisation + output-only validity predicates",
        "tests": [{"name": "TestC12", "quick": 25000, "thorough": 3200000}],
        "assumptions": [],
    },
    "C02": {
        "level": "exploration",
        "level_text": "generated conflict-free messages rendered from a typed model through the real protobuf encoder, parsed with every zone option class, and compared field by field against an independent reference transcription; exploration because the claim is every field x presence pattern x zone over an unbounded message space",
        "level_note": "trusts Go's time package for zone arithmetic and the generated protobuf encoder; start dates avoid days without a unique local midnight; timestamps >= 2^63, NaN/Inf coordinates, multi-payload entities and empty vehicle descriptors are outside the generator (inside C05's)",
        "technique": "property-based testing (rapid) against a reference model of the transcription",
        "tests": [{"name": "TestC02", "quick": 20000, "thorough": 1600000}],
        "assumptions": ["presence of a string field means non-empty", "proto-declared enum defaults count as absent"],
    },
    "C13": {
        "level": "exploration",
        "level_text": "generated pairs of trips/vehicles over a deliberately small value domain (so data-equal pairs are common), with a catalogue of single-field, nil-vs-zero, boundary-shift and count edits at any stop-time-update index; the recorded hash input stream must be equal exactly when the harness's structural equality says the data is equal. Exploration: injectivity is a statement about all pairs, sampled densely where encodings are typically ambiguous",
        "level_note": "observes the bytes written to the hash.Hash (concatenated), not a digest; values are canonical as the parser produces them (whole seconds, has-flag false => zero value); -0.0 and NaN floats not generated",
        "technique": "property-based metamorphic pairs (rapid): copy => equal stream, single edit => different stream, independent pairs => stream equality iff structural equality",
        "tests": [{"name": "TestC13", "quick": 40000, "thorough": 4000000}],
        "assumptions": ["data equality is the harness's structural equality of the model (floats by value, instants by Unix second)"],
    },
    "C20": {
        "level": "exploration",
        "level_text": "generated journals (thousands to ~10^6, stratified over presence patterns) exported and read back with encoding/csv against the journal values; exploration is the right level because the statement is a round-trip over an unbounded input space with a cheap total oracle",
        "level_note": "trusts encoding/csv as the reader; strings restricted to the property's CSV-safe alphabet; never proves absence",
        "technique": "property-based round-trip (rapid) with value-level oracle + no-mutation differential",
        "tests": [{"name": "TestC20", "quick": 6000, "thorough": 800000}],
        "assumptions": ["Go's encoding/csv is the 'standard CSV reader' of the statement",
                        "id and track strings are free of comma, double quote, CR and LF (the property's own precondition)"],
    },
}

NOT_APPLICABLE = {}
