# Per-property run configuration for ./check. "quick"/"thorough" are case counts for rapid tests
# (thorough counts are split over the shards) or the VERIF_N value handed to plain tests.
CONFIG = {
    "C20": {
        "level": "exploration",
        "level_text": "generated journals (thousands to ~10^6, stratified over presence patterns) exported and read back with encoding/csv against the journal values; exploration is the right level because the statement is a round-trip over an unbounded input space with a cheap total oracle",
        "level_note": "trusts encoding/csv as the reader; strings restricted to the property's CSV-safe alphabet; never proves absence",
        "technique": "property-based round-trip (rapid) with value-level oracle + no-mutation differential",
        "tests": [{"name": "TestC20", "quick": 6000, "thorough": 800000}],
        "assumptions": ["Go's encoding/csv is the 'standard CSV reader' of the statement",
                        "id and track strings are free of comma, double quote, CR and LF (the property's own precondition)"],
    },
}

NOT_APPLICABLE = {}
