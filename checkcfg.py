# Per-property run configuration for ./check. "quick"/"thorough" are case counts for rapid tests
# (thorough counts are split over the shards) or the VERIF_N value handed to plain tests.
CONFIG = {
    "C13": {
        "level": "exploration",
        "level_text": "generated pairs of trips/vehicles over a deliberately small value domain (so data-equal pairs are common), with a catalogue of single-field, nil-vs-zero, boundary-shift and count edits at any stop-time-update index; the recorded hash input stream must be equal exactly when the harness's structural equality says the data is equal. Exploration: injectivity is a statement about all pairs, sampled densely where encodings are typically ambiguous",
        "level_note": "observes the bytes written to the hash.Hash (concatenated), not a digest; values are canonical as the parser produces them (whole seconds, has-flag false => zero value); -0.0 and NaN floats not generated",
        "technique": "property-based metamorphic pairs (rapid): copy => equal stream, single edit => different stream, independent pairs => stream equality iff structural equality",
        "tests": [{"name": "TestC13", "quick": 40000, "thorough": 4000000}],
        "assumptions": ["data equality is the harness's structural equality of the model (floats by value, instants by Unix second)"],
    },
    "C20": {
        "level": "exploration",
        "level_text": "generated journals (thousands to ~10^6, stratified over presence patterns) exported and read back with encoding/csv against the journal values; exploration is the right level because the statement is a round-trip over an unbounded input space with a cheap total oracle",
        "level_note": "trusts encoding/csv as the reader; strings restricted to the property's CSV-safe alphabet; never proves absence",
        "technique": "property-based round-trip (rapid) with value-level oracle + no-mutation differential",
        "tests": [{"name": "TestC20", "quick": 6000, "thorough": 800000}],
        "assumptions": ["Go's encoding/csv is the 'standard CSV reader' of the statement",
                        "id and track strings are free of comma, double quote, CR and LF (the property's own precondition)"],
    },
}

NOT_APPLICABLE = {}
