#!/bin/sh
# Runs every quick check at the given seeds on the current tree; prints anything that is not OK.
# usage: ./selftest.sh [tier] seed...
tier=${1:-quick}; shift
cd "$(dirname "$0")"
for seed in "$@"; do
  for i in 01 02 03 04 05 06 07 08 09 10 11 12 13 14 15 16 17 18 19 20; do
    out=$(VERIF_SEED=$seed ./check C$i --tier $tier 2>&1); rc=$?
    if [ $rc -ne 0 ]; then echo "seed=$seed C$i rc=$rc"; echo "$out" | tail -20; else echo "$out" | tail -1; fi
  done
done
